pub fn x(){}
