//! Type-erased table entries for compiled `FORMAT` constants.
//!
//! Every function pointer is a monomorphisation of the *public* lexical-core API for one
//! `(type, FORMAT)` pair; values are erased to bit patterns (`u64` for floats, two's complement
//! `u128` for integers) so the checks can pick formats and types at run time.

pub use lexical_core;
use lexical_core::{
    Error, FormattedSize, FromLexicalWithOptions, ParseFloatOptions as PFO, ParseIntegerOptions as PIO, Result, ToLexicalWithOptions,
    WriteFloatOptions as WFO, WriteIntegerOptions as WIO,
};

pub type PF = fn(&[u8], &PFO) -> Result<u64>;
pub type PFP = fn(&[u8], &PFO) -> Result<(u64, usize)>;
pub type PI = fn(&[u8], &PIO) -> Result<u128>;
pub type PIP = fn(&[u8], &PIO) -> Result<(u128, usize)>;
/// returns (offset of the returned slice from the buffer start, length of the returned slice)
pub type WF = fn(u64, &mut [u8], &WFO) -> (usize, usize);
pub type WI = fn(u128, &mut [u8], &WIO) -> (usize, usize);
pub type BSF = fn(&WFO) -> usize;
pub type BSI = fn(&WIO) -> usize;

pub const INT_NAMES: [&str; 12] = ["u8", "u16", "u32", "u64", "u128", "usize", "i8", "i16", "i32", "i64", "i128", "isize"];
pub const INT_BITS: [u32; 12] = [8, 16, 32, 64, 128, usize::BITS, 8, 16, 32, 64, 128, usize::BITS];
pub const INT_SIGNED: [bool; 12] = [false, false, false, false, false, false, true, true, true, true, true, true];
pub const FLOAT_NAMES: [&str; 2] = ["f32", "f64"];

pub trait FloatE: Copy + FromLexicalWithOptions<Options = PFO> + ToLexicalWithOptions<Options = WFO> + FormattedSize {
    const IDX: usize;
    fn bits(self) -> u64;
    fn from_bits_(b: u64) -> Self;
}
impl FloatE for f32 {
    const IDX: usize = 0;
    fn bits(self) -> u64 {
        self.to_bits() as u64
    }
    fn from_bits_(b: u64) -> f32 {
        f32::from_bits(b as u32)
    }
}
impl FloatE for f64 {
    const IDX: usize = 1;
    fn bits(self) -> u64 {
        self.to_bits()
    }
    fn from_bits_(b: u64) -> f64 {
        f64::from_bits(b)
    }
}

pub trait IntE: Copy + FromLexicalWithOptions<Options = PIO> + ToLexicalWithOptions<Options = WIO> + FormattedSize {
    const IDX: usize;
    fn erase(self) -> u128;
    fn restore(x: u128) -> Self;
}
macro_rules! int_e {
    ($($t:ident $i:expr, $via:ident;)*) => {$(
        impl IntE for $t {
            const IDX: usize = $i;
            fn erase(self) -> u128 { self as $via as u128 }
            fn restore(x: u128) -> Self { x as $t }
        }
    )*};
}
int_e! { u8 0, u128; u16 1, u128; u32 2, u128; u64 3, u128; u128 4, u128; usize 5, u128; i8 6, i128; i16 7, i128; i32 8, i128; i64 9, i128; i128 10, i128; isize 11, i128; }

fn pf_c<T: FloatE, const F: u128>(b: &[u8], o: &PFO) -> Result<u64> {
    lexical_core::parse_with_options::<T, F>(b, o).map(|v| v.bits())
}
fn pf_p<T: FloatE, const F: u128>(b: &[u8], o: &PFO) -> Result<(u64, usize)> {
    lexical_core::parse_partial_with_options::<T, F>(b, o).map(|(v, n)| (v.bits(), n))
}
fn pi_c<T: IntE, const F: u128>(b: &[u8], o: &PIO) -> Result<u128> {
    lexical_core::parse_with_options::<T, F>(b, o).map(|v| v.erase())
}
fn pi_p<T: IntE, const F: u128>(b: &[u8], o: &PIO) -> Result<(u128, usize)> {
    lexical_core::parse_partial_with_options::<T, F>(b, o).map(|(v, n)| (v.erase(), n))
}
fn wf_<T: FloatE, const F: u128>(bits: u64, buf: &mut [u8], o: &WFO) -> (usize, usize) {
    let base = buf.as_ptr() as usize;
    let out = lexical_core::write_with_options::<T, F>(T::from_bits_(bits), buf, o);
    ((out.as_ptr() as usize).wrapping_sub(base), out.len())
}
fn wi_<T: IntE, const F: u128>(v: u128, buf: &mut [u8], o: &WIO) -> (usize, usize) {
    let base = buf.as_ptr() as usize;
    let out = lexical_core::write_with_options::<T, F>(T::restore(v), buf, o);
    ((out.as_ptr() as usize).wrapping_sub(base), out.len())
}
fn bsf_<T: FloatE, const F: u128>(o: &WFO) -> usize {
    o.buffer_size_const::<T, F>()
}
fn bsi_<T: IntE, const F: u128>(o: &WIO) -> usize {
    o.buffer_size_const::<T, F>()
}

pub struct Entry {
    pub name: &'static str,
    pub group: &'static str,
    pub packed: u128,
    /// `format_is_valid::<F>()` as evaluated by lexical for this build configuration
    pub is_valid: bool,
    /// `format_error::<F>()`
    pub error: Error,
    pub pf: [Option<(PF, PFP)>; 2],
    pub pi: [Option<(PI, PIP)>; 12],
    pub wf: [Option<(WF, BSF)>; 2],
    pub wi: [Option<(WI, BSI)>; 12],
}

impl Entry {
    pub fn new<const F: u128>(name: &'static str, group: &'static str) -> Entry {
        Entry {
            name,
            group,
            packed: F,
            is_valid: lexical_core::format_is_valid::<F>(),
            error: lexical_core::format_error::<F>(),
            pf: [None; 2],
            pi: [None; 12],
            wf: [None; 2],
            wi: [None; 12],
        }
    }
    pub fn pf<T: FloatE, const F: u128>(&mut self) {
        self.pf[T::IDX] = Some((pf_c::<T, F>, pf_p::<T, F>));
    }
    pub fn pi<T: IntE, const F: u128>(&mut self) {
        self.pi[T::IDX] = Some((pi_c::<T, F>, pi_p::<T, F>));
    }
    pub fn wf<T: FloatE, const F: u128>(&mut self) {
        self.wf[T::IDX] = Some((wf_::<T, F>, bsf_::<T, F>));
    }
    pub fn wi<T: IntE, const F: u128>(&mut self) {
        self.wi[T::IDX] = Some((wi_::<T, F>, bsi_::<T, F>));
    }
}

/// (FORMATTED_SIZE_DECIMAL, FORMATTED_SIZE) per integer type index, as lexical defines them.
pub fn int_formatted_size(idx: usize) -> (usize, usize) {
    macro_rules! fs {
        ($t:ty) => {
            (<$t as FormattedSize>::FORMATTED_SIZE_DECIMAL, <$t as FormattedSize>::FORMATTED_SIZE)
        };
    }
    match idx {
        0 => fs!(u8),
        1 => fs!(u16),
        2 => fs!(u32),
        3 => fs!(u64),
        4 => fs!(u128),
        5 => fs!(usize),
        6 => fs!(i8),
        7 => fs!(i16),
        8 => fs!(i32),
        9 => fs!(i64),
        10 => fs!(i128),
        _ => fs!(isize),
    }
}
pub fn float_formatted_size(idx: usize) -> (usize, usize) {
    if idx == 0 {
        (<f32 as FormattedSize>::FORMATTED_SIZE_DECIMAL, <f32 as FormattedSize>::FORMATTED_SIZE)
    } else {
        (<f64 as FormattedSize>::FORMATTED_SIZE_DECIMAL, <f64 as FormattedSize>::FORMATTED_SIZE)
    }
}
