//! Exact value of a number written as digit vectors: `int . frac  base^exp`.

use crate::big::Big;
use crate::flt::{round_rat, FloatKind, Rat, Rounded};

/// Digit value of an ASCII byte in `radix` (letters in either case), like `char::to_digit`.
pub fn digit_val(c: u8, radix: u32) -> Option<u8> {
    let d = match c {
        b'0'..=b'9' => c - b'0',
        b'a'..=b'z' => c - b'a' + 10,
        b'A'..=b'Z' => c - b'A' + 10,
        _ => return None,
    };
    if (d as u32) < radix {
        Some(d)
    } else {
        None
    }
}

pub fn digit_char(d: u8) -> u8 {
    if d < 10 {
        b'0' + d
    } else {
        b'A' + d - 10
    }
}

/// Radix description of a float format.
#[derive(Clone, Copy, Debug, PartialEq, Eq, serde::Serialize, serde::Deserialize)]
pub struct Radices {
    /// radix of the significant digits
    pub mant: u32,
    /// base the exponent is a power of
    pub base: u32,
    /// radix the exponent digits are written in
    pub exp: u32,
}

impl Radices {
    pub const DECIMAL: Radices = Radices { mant: 10, base: 10, exp: 10 };
    pub fn uniform(r: u32) -> Radices {
        Radices { mant: r, base: r, exp: r }
    }
    /// k such that mant = base^k (1 if equal); None if not a documented pair
    pub fn digits_per_base(&self) -> Option<u32> {
        if self.mant == self.base {
            return Some(1);
        }
        let mut k = 0;
        let mut p = 1u32;
        while p < self.mant {
            p *= self.base;
            k += 1;
        }
        if p == self.mant {
            Some(k)
        } else {
            None
        }
    }
}

/// Structured number: digit *values* (not ASCII).
#[derive(Clone, Debug, Default, PartialEq, Eq)]
pub struct NumParts {
    pub neg: bool,
    pub int: Vec<u8>,
    pub frac: Vec<u8>,
    pub exp_neg: bool,
    /// exponent digit values in the exponent radix (empty = no exponent / zero)
    pub exp: Vec<u8>,
}

#[derive(Clone, Debug)]
pub enum Exact {
    Zero,
    /// magnitude certainly above 2^1100
    Huge,
    /// magnitude certainly below 2^-1200 (and non-zero)
    Tiny,
    Val(Rat),
}

/// Exact magnitude of the number.
pub fn exact_value(p: &NumParts, rx: Radices) -> Exact {
    let mut digits: Vec<u8> = Vec::with_capacity(p.int.len() + p.frac.len());
    digits.extend_from_slice(&p.int);
    digits.extend_from_slice(&p.frac);
    // strip leading zeros
    let first_nz = digits.iter().position(|&d| d != 0);
    let first_nz = match first_nz {
        None => return Exact::Zero,
        Some(i) => i,
    };
    let sig = &digits[first_nz..];
    // strip trailing zeros into the exponent (in units of mantissa digits)
    let mut end = sig.len();
    while end > 0 && sig[end - 1] == 0 {
        end -= 1;
    }
    let stripped = (sig.len() - end) as i128;
    let sig = &sig[..end];
    let k = rx.digits_per_base().expect("unsupported mantissa/base pair") as i128;
    // explicit exponent as a saturating i128
    let mut e: i128 = 0;
    let mut sat = false;
    for &d in &p.exp {
        e = e * rx.exp as i128 + d as i128;
        if e > (1i128 << 100) {
            sat = true;
            e = 1i128 << 100;
        }
    }
    let _ = sat;
    if p.exp_neg {
        e = -e;
    }
    // value = D * mant^(stripped - |frac|) * base^e  = D * base^(k*(stripped-|frac|) + e)
    let big_e: i128 = k * (stripped - p.frac.len() as i128) + e;
    let d = Big::from_digits(sig, rx.mant);
    let lg = d.bit_len() as f64 + (big_e as f64) * (rx.base as f64).log2();
    if lg > 1110.0 {
        return Exact::Huge;
    }
    if lg < -1210.0 {
        return Exact::Tiny;
    }
    let rat = if big_e >= 0 {
        Rat::new(d.mul(&Big::pow(rx.base as u64, big_e as u64)), Big::from_u64(1))
    } else {
        Rat::new(d, Big::pow(rx.base as u64, (-big_e) as u64))
    };
    Exact::Val(rat)
}

/// Correctly rounded magnitude bits of the number for float kind `k`.
pub fn round_parts(k: FloatKind, p: &NumParts, rx: Radices) -> Rounded {
    match exact_value(p, rx) {
        Exact::Zero => Rounded { bits: 0, exact: true, tie: false, hard_bits: 0 },
        Exact::Huge => Rounded { bits: k.inf_bits(), exact: false, tie: false, hard_bits: 0 },
        Exact::Tiny => Rounded { bits: 0, exact: false, tie: false, hard_bits: 0 },
        Exact::Val(r) => round_rat(k, &r),
    }
}

/// Render parts as ASCII with the given punctuation (upper-case letter digits).
pub fn render(p: &NumParts, point: u8, exp_char: u8, plus_sign: bool, has_point: bool, has_exp: bool, exp_plus: bool) -> Vec<u8> {
    let mut out = Vec::new();
    if p.neg {
        out.push(b'-');
    } else if plus_sign {
        out.push(b'+');
    }
    out.extend(p.int.iter().map(|&d| digit_char(d)));
    if has_point {
        out.push(point);
        out.extend(p.frac.iter().map(|&d| digit_char(d)));
    }
    if has_exp {
        out.push(exp_char);
        if p.exp_neg {
            out.push(b'-');
        } else if exp_plus {
            out.push(b'+');
        }
        out.extend(p.exp.iter().map(|&d| digit_char(d)));
    }
    out
}

/// Strict reader for `[+-] digits [point digits] [expchar [+-] digits]` (used on writer output and
/// on generated strings). Returns None if the bytes are not of that shape (no digit at all in the
/// mantissa, or trailing bytes). Letters accepted in either case.
pub fn read_number(bytes: &[u8], rx: Radices, point: u8, exp_char: u8, exp_case_insensitive: bool) -> Option<(NumParts, ReadInfo)> {
    let mut i = 0;
    let mut p = NumParts::default();
    let mut info = ReadInfo::default();
    if i < bytes.len() && (bytes[i] == b'+' || bytes[i] == b'-') {
        p.neg = bytes[i] == b'-';
        info.has_sign = true;
        i += 1;
    }
    while i < bytes.len() {
        match digit_val(bytes[i], rx.mant) {
            Some(d) => p.int.push(d),
            None => break,
        }
        i += 1;
    }
    if i < bytes.len() && bytes[i] == point {
        info.has_point = true;
        i += 1;
        while i < bytes.len() {
            match digit_val(bytes[i], rx.mant) {
                Some(d) => p.frac.push(d),
                None => break,
            }
            i += 1;
        }
    }
    if p.int.is_empty() && p.frac.is_empty() {
        return None;
    }
    let is_exp = |c: u8| if exp_case_insensitive { c.eq_ignore_ascii_case(&exp_char) } else { c == exp_char };
    if i < bytes.len() && is_exp(bytes[i]) {
        info.has_exp = true;
        i += 1;
        if i < bytes.len() && (bytes[i] == b'+' || bytes[i] == b'-') {
            p.exp_neg = bytes[i] == b'-';
            info.exp_has_sign = true;
            i += 1;
        }
        let start = i;
        while i < bytes.len() {
            match digit_val(bytes[i], rx.exp) {
                Some(d) => p.exp.push(d),
                None => break,
            }
            i += 1;
        }
        if i == start {
            return None;
        }
    }
    if i != bytes.len() {
        return None;
    }
    Some((p, info))
}

#[derive(Clone, Copy, Debug, Default, PartialEq, Eq)]
pub struct ReadInfo {
    pub has_sign: bool,
    pub has_point: bool,
    pub has_exp: bool,
    pub exp_has_sign: bool,
}
