//! Exact IEEE-754 binary32/binary64 model over `Big` rationals. Independent of lexical.

use crate::big::Big;
use std::cmp::Ordering;

#[derive(Clone, Copy, Debug, PartialEq, Eq)]
pub struct FloatKind {
    pub name: &'static str,
    /// precision in bits including the hidden bit
    pub p: u32,
    pub exp_bits: u32,
}

pub const F32: FloatKind = FloatKind { name: "f32", p: 24, exp_bits: 8 };
pub const F64: FloatKind = FloatKind { name: "f64", p: 53, exp_bits: 11 };

impl FloatKind {
    pub fn bias(&self) -> i64 {
        (1i64 << (self.exp_bits - 1)) - 1
    }
    /// exponent of the least significant bit of the smallest subnormal
    pub fn qmin(&self) -> i64 {
        1 - self.bias() - (self.p as i64 - 1)
    }
    pub fn max_exp_field(&self) -> u64 {
        (1u64 << self.exp_bits) - 1
    }
    pub fn total_bits(&self) -> u32 {
        self.p + self.exp_bits
    }
    pub fn sign_mask(&self) -> u64 {
        1u64 << (self.total_bits() - 1)
    }
    pub fn inf_bits(&self) -> u64 {
        self.max_exp_field() << (self.p - 1)
    }
    pub fn max_finite_bits(&self) -> u64 {
        self.inf_bits() - 1
    }
    pub fn mant_mask(&self) -> u64 {
        (1u64 << (self.p - 1)) - 1
    }
    pub fn is_nan(&self, bits: u64) -> bool {
        (bits & !self.sign_mask()) > self.inf_bits()
    }
    pub fn is_inf(&self, bits: u64) -> bool {
        (bits & !self.sign_mask()) == self.inf_bits()
    }
    pub fn is_finite(&self, bits: u64) -> bool {
        (bits & !self.sign_mask()) < self.inf_bits()
    }
    pub fn is_negative(&self, bits: u64) -> bool {
        bits & self.sign_mask() != 0
    }
    pub fn abs(&self, bits: u64) -> u64 {
        bits & !self.sign_mask()
    }
    /// Decompose finite |bits| into (m, q) with value m * 2^q, m < 2^p.
    pub fn decode(&self, bits: u64) -> (u64, i64) {
        let a = self.abs(bits);
        debug_assert!(a < self.inf_bits());
        let e = a >> (self.p - 1);
        let f = a & self.mant_mask();
        if e == 0 {
            (f, self.qmin())
        } else {
            (f | (1u64 << (self.p - 1)), e as i64 - self.bias() - (self.p as i64 - 1))
        }
    }
    pub fn is_subnormal_or_zero(&self, bits: u64) -> bool {
        (self.abs(bits) >> (self.p - 1)) == 0
    }
}

/// A non-negative rational num/den (den > 0) times 2^exp2 (exp2 may be negative): used so that
/// power-of-two scaling never needs a big shift until comparison time.
#[derive(Clone, Debug)]
pub struct Rat {
    pub num: Big,
    pub den: Big,
}

impl Rat {
    pub fn new(num: Big, den: Big) -> Rat {
        assert!(!den.is_zero());
        Rat { num, den }
    }
    pub fn from_m_q(m: u64, q: i64) -> Rat {
        if q >= 0 {
            Rat { num: Big::from_u64(m).shl(q as u64), den: Big::from_u64(1) }
        } else {
            Rat { num: Big::from_u64(m), den: Big::from_u64(1).shl((-q) as u64) }
        }
    }
    pub fn is_zero(&self) -> bool {
        self.num.is_zero()
    }
    pub fn cmp(&self, other: &Rat) -> Ordering {
        self.num.mul(&other.den).cmp_big(&other.num.mul(&self.den))
    }
    /// compare with m * 2^q
    pub fn cmp_m_q(&self, m: u128, q: i64) -> Ordering {
        // num/den ? m*2^q
        let mb = Big::from_u128(m);
        if q >= 0 {
            self.num.cmp_big(&mb.mul(&self.den).shl(q as u64))
        } else {
            self.num.shl((-q) as u64).cmp_big(&mb.mul(&self.den))
        }
    }
}

#[derive(Clone, Copy, Debug, PartialEq, Eq)]
pub struct Rounded {
    /// magnitude bits (sign not included)
    pub bits: u64,
    /// result was exactly representable
    pub exact: bool,
    /// value sits exactly on a rounding boundary (tie)
    pub tie: bool,
    /// crude closeness to the nearest rounding boundary: number of bits (beyond the
    /// precision) in which the value agrees with the boundary, 0..=10 (10 = indistinguishable
    /// at the 62-bit working precision, or an exact tie)
    pub hard_bits: u32,
}

/// Correctly rounded (nearest, ties-to-even) float of kind `k` for the non-negative rational
/// `v`. Overflow gives infinity, underflow zero/subnormal. Exact arithmetic only.
pub fn round_rat(k: FloatKind, v: &Rat) -> Rounded {
    if v.num.is_zero() {
        return Rounded { bits: 0, exact: true, tie: false, hard_bits: 0 };
    }
    // value in [2^(e-1), 2^(e+1)) with e = bl(num) - bl(den)
    let e = v.num.bit_len() as i64 - v.den.bit_len() as i64;
    // quick exits far outside the range (sound by a wide margin)
    let emax = k.bias() + 1; // values >= 2^emax overflow
    if e - 1 >= emax + 2 {
        return Rounded { bits: k.inf_bits(), exact: false, tie: false, hard_bits: 0 };
    }
    if e + 1 < k.qmin() - 2 {
        return Rounded { bits: 0, exact: false, tie: false, hard_bits: 0 };
    }
    // scale so that the quotient has 62..=63 bits: q = floor(value / 2^s), s = e - 62
    let s = e - 62;
    let (num, den) = if s >= 0 {
        (v.num.clone(), v.den.shl(s as u64))
    } else {
        (v.num.shl((-s) as u64), v.den.clone())
    };
    let (m, exact_q) = num.div_small_quotient(&den);
    let sticky = !exact_q;
    debug_assert!(m >= (1u64 << 60) && m < (1u64 << 63), "m={m:#x}");
    let msb = 63 - m.leading_zeros() as i64; // position of the top bit
    // number of low bits to drop
    let mut shift = msb + 1 - k.p as i64;
    let qmin = k.qmin();
    if s + shift < qmin {
        shift = qmin - s;
    }
    if shift >= 64 {
        // m < 2^63 <= half of 2^shift => rounds to zero (shift==64: half = 2^63 > m)
        return Rounded { bits: 0, exact: false, tie: false, hard_bits: 0 };
    }
    debug_assert!(shift >= 1);
    let shift_u = shift as u32;
    let mut kept = m >> shift_u;
    let rem = m & ((1u64 << shift_u) - 1);
    let half = 1u64 << (shift_u - 1);
    let exact = rem == 0 && !sticky;
    let tie = rem == half && !sticky;
    let up = rem > half || (rem == half && (sticky || kept & 1 == 1));
    if up {
        kept += 1;
    }
    // closeness to boundary (tie point or representable value are both "boundaries" of
    // interest only for ties; for parsing the hard ones are near `half`)
    let dist = if rem >= half { rem - half } else { half - rem };
    let hard_bits = if dist == 0 {
        shift_u.min(10)
    } else {
        let agree = shift_u as i64 - 1 - (63 - dist.leading_zeros() as i64) - 1;
        agree.clamp(0, 10) as u32
    };
    let mut lsb = s + shift;
    if kept == (1u64 << k.p) {
        kept >>= 1;
        lsb += 1;
    }
    let bits = if kept < (1u64 << (k.p - 1)) {
        // subnormal (or zero)
        debug_assert_eq!(lsb, qmin);
        kept
    } else {
        let biased = lsb + (k.p as i64 - 1) + k.bias();
        if biased >= k.max_exp_field() as i64 {
            k.inf_bits()
        } else {
            debug_assert!(biased >= 1);
            ((biased as u64) << (k.p - 1)) | (kept & k.mant_mask())
        }
    };
    Rounded { bits, exact, tie, hard_bits }
}

/// Is the non-negative rational `v` inside the round-to-nearest-even interval of the finite
/// magnitude `bits` (i.e. would `v` round to exactly `bits`)? Independent second
/// implementation used to cross-check `round_rat` and to verify writer output.
pub fn in_rounding_interval(k: FloatKind, bits: u64, v: &Rat) -> bool {
    let bits = k.abs(bits);
    assert!(bits < k.inf_bits());
    let (m, q) = k.decode(bits);
    let even = m & 1 == 0;
    // upper boundary: (2m+1) * 2^(q-1)
    let hi = v.cmp_m_q(2 * m as u128 + 1, q - 1);
    let hi_ok = match hi {
        Ordering::Less => true,
        Ordering::Equal => even && bits != k.max_finite_bits(),
        Ordering::Greater => false,
    };
    // max finite: tie goes to infinity (even rule: max has odd mantissa field all ones -> m odd)
    if !hi_ok {
        return false;
    }
    if bits == 0 {
        return true;
    }
    // lower boundary: normally (2m-1) * 2^(q-1); at a power of two with a smaller binade
    // below, the gap below is half: (4m-1) * 2^(q-2)
    let is_pow2_boundary = m == (1u64 << (k.p - 1)) && q > k.qmin();
    let lo = if is_pow2_boundary {
        v.cmp_m_q(4 * m as u128 - 1, q - 2)
    } else {
        v.cmp_m_q(2 * m as u128 - 1, q - 1)
    };
    match lo {
        Ordering::Greater => true,
        Ordering::Equal => even,
        Ordering::Less => false,
    }
}

/// Magnitude as a rational.
pub fn rat_of_bits(k: FloatKind, bits: u64) -> Rat {
    let (m, q) = k.decode(bits);
    Rat::from_m_q(m, q)
}

/// Size of one unit in the last place of finite `bits` as (1, q): ulp = 2^q.
pub fn ulp_exp(k: FloatKind, bits: u64) -> i64 {
    k.decode(bits).1
}

/// Neighbour helpers on magnitudes (monotone bit patterns).
pub fn next_up_mag(k: FloatKind, bits: u64) -> u64 {
    let a = k.abs(bits);
    if a >= k.inf_bits() {
        a
    } else {
        a + 1
    }
}
pub fn next_down_mag(k: FloatKind, bits: u64) -> u64 {
    let a = k.abs(bits);
    if a == 0 {
        0
    } else {
        a - 1
    }
}

#[cfg(test)]
mod tests {
    use super::*;
    #[test]
    fn simple() {
        let r = round_rat(F64, &Rat::new(Big::from_u64(1), Big::from_u64(10)));
        assert_eq!(r.bits, 0.1f64.to_bits());
        let r = round_rat(F32, &Rat::new(Big::from_u64(1), Big::from_u64(10)));
        assert_eq!(r.bits as u32, 0.1f32.to_bits());
        let r = round_rat(F64, &Rat::new(Big::pow(10, 309), Big::from_u64(1)));
        assert_eq!(r.bits, f64::INFINITY.to_bits());
        let r = round_rat(F64, &Rat::new(Big::from_u64(5), Big::pow(10, 324)));
        assert_eq!(r.bits, 5e-324f64.to_bits());
        let r = round_rat(F64, &Rat::new(Big::from_u64(2), Big::pow(10, 324)));
        assert_eq!(r.bits, 0);
        assert!(in_rounding_interval(F64, 0.1f64.to_bits(), &Rat::new(Big::from_u64(1), Big::from_u64(10))));
        assert!(!in_rounding_interval(F64, 0.1f64.to_bits() + 1, &Rat::new(Big::from_u64(1), Big::from_u64(10))));
    }
}
