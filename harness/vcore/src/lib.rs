pub mod big;
pub mod flt;
pub mod gen;
pub mod numtext;
pub mod report;
pub mod fmodel;
pub mod refparse;
pub mod guardbuf;
