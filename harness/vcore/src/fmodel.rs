//! The harness's own model of a packed number format, decoded from the u128 following the bit
//! layout documented in lexical-util/src/format_flags.rs, plus the documented validity rules.
//! No lexical code is used here.

use crate::numtext::Radices;

#[derive(Clone, Copy, Debug, PartialEq, Eq, Default)]
pub struct SepMode {
    pub internal: bool,
    pub leading: bool,
    pub trailing: bool,
    pub consecutive: bool,
}

impl SepMode {
    pub fn any(&self) -> bool {
        self.internal || self.leading || self.trailing || self.consecutive
    }
    pub fn any_position(&self) -> bool {
        self.internal || self.leading || self.trailing
    }
}

#[derive(Clone, Debug, PartialEq, Eq)]
pub struct FormatModel {
    pub packed: u128,
    pub required_integer_digits: bool,
    pub required_fraction_digits: bool,
    pub required_exponent_digits: bool,
    pub required_mantissa_digits: bool,
    pub no_positive_mantissa_sign: bool,
    pub required_mantissa_sign: bool,
    pub no_exponent_notation: bool,
    pub no_positive_exponent_sign: bool,
    pub required_exponent_sign: bool,
    pub no_exponent_without_fraction: bool,
    pub no_special: bool,
    pub case_sensitive_special: bool,
    pub no_integer_leading_zeros: bool,
    pub no_float_leading_zeros: bool,
    pub required_exponent_notation: bool,
    pub case_sensitive_exponent: bool,
    pub case_sensitive_base_prefix: bool,
    pub case_sensitive_base_suffix: bool,
    pub integer_sep: SepMode,
    pub fraction_sep: SepMode,
    pub exponent_sep: SepMode,
    pub special_digit_separator: bool,
    pub digit_separator: u8,
    pub base_prefix: u8,
    pub base_suffix: u8,
    /// raw fields (0 = unset for base / exponent radix)
    pub mantissa_radix_raw: u8,
    pub exponent_base_raw: u8,
    pub exponent_radix_raw: u8,
}

#[derive(Clone, Copy, Debug, PartialEq, Eq)]
pub struct Features {
    pub power_of_two: bool,
    pub radix: bool,
    pub format: bool,
}

pub const SYNTAX_FLAG_NAMES: [&str; 18] = [
    "required_integer_digits",
    "required_fraction_digits",
    "required_exponent_digits",
    "required_mantissa_digits",
    "no_positive_mantissa_sign",
    "required_mantissa_sign",
    "no_exponent_notation",
    "no_positive_exponent_sign",
    "required_exponent_sign",
    "no_exponent_without_fraction",
    "no_special",
    "case_sensitive_special",
    "no_integer_leading_zeros",
    "no_float_leading_zeros",
    "required_exponent_notation",
    "case_sensitive_exponent",
    "case_sensitive_base_prefix",
    "case_sensitive_base_suffix",
];

/// Documented definition of a valid punctuation byte (lexical-util/src/ascii.rs comments).
pub fn is_valid_ascii(c: u8) -> bool {
    (0x09..=0x0d).contains(&c) || (0x20..0x7f).contains(&c)
}

pub const FLAG_MASK: u128 = 0x3ffff | (0x1fff << 32);

impl FormatModel {
    pub fn decode(f: u128) -> FormatModel {
        let b = |i: u32| (f >> i) & 1 == 1;
        let sep = |base: u32| SepMode { internal: b(32 + base), leading: b(35 + base), trailing: b(38 + base), consecutive: b(41 + base) };
        FormatModel {
            packed: f,
            required_integer_digits: b(0),
            required_fraction_digits: b(1),
            required_exponent_digits: b(2),
            required_mantissa_digits: b(3),
            no_positive_mantissa_sign: b(4),
            required_mantissa_sign: b(5),
            no_exponent_notation: b(6),
            no_positive_exponent_sign: b(7),
            required_exponent_sign: b(8),
            no_exponent_without_fraction: b(9),
            no_special: b(10),
            case_sensitive_special: b(11),
            no_integer_leading_zeros: b(12),
            no_float_leading_zeros: b(13),
            required_exponent_notation: b(14),
            case_sensitive_exponent: b(15),
            case_sensitive_base_prefix: b(16),
            case_sensitive_base_suffix: b(17),
            integer_sep: sep(0),
            fraction_sep: sep(1),
            exponent_sep: sep(2),
            special_digit_separator: b(44),
            digit_separator: (f >> 64) as u8,
            base_prefix: (f >> 88) as u8,
            base_suffix: (f >> 96) as u8,
            mantissa_radix_raw: (f >> 104) as u8,
            exponent_base_raw: (f >> 112) as u8,
            exponent_radix_raw: (f >> 120) as u8,
        }
    }
    pub fn mantissa_radix(&self) -> u32 {
        self.mantissa_radix_raw as u32
    }
    pub fn exponent_base(&self) -> u32 {
        if self.exponent_base_raw == 0 {
            self.mantissa_radix()
        } else {
            self.exponent_base_raw as u32
        }
    }
    pub fn exponent_radix(&self) -> u32 {
        if self.exponent_radix_raw == 0 {
            self.mantissa_radix()
        } else {
            self.exponent_radix_raw as u32
        }
    }
    pub fn radices(&self) -> Radices {
        Radices { mant: self.mantissa_radix(), base: self.exponent_base(), exp: self.exponent_radix() }
    }
    pub fn has_separators(&self) -> bool {
        self.integer_sep.any() || self.fraction_sep.any() || self.exponent_sep.any() || self.special_digit_separator
    }
    pub fn flag_word(&self) -> u128 {
        self.packed & FLAG_MASK
    }
    pub fn syntax_flag(&self, i: usize) -> bool {
        (self.packed >> i) & 1 == 1
    }
    /// Is the mantissa/base pair one the float conversions document?
    pub fn float_radix_pair_ok(&self) -> bool {
        let (r, b) = (self.mantissa_radix(), self.exponent_base());
        r == b || matches!((r, b), (4, 2) | (8, 2) | (16, 2) | (32, 2) | (16, 4))
    }

    /// The documented validity rules; returns the name of the first violated rule in the
    /// documented precedence order (which matches `Error` variant names), or None if valid.
    pub fn validity(&self, feat: Features) -> Option<&'static str> {
        self.violations(feat).first().copied()
    }

    /// All violated rules, in the documented precedence order.
    pub fn violations(&self, feat: Features) -> Vec<&'static str> {
        let mut out: Vec<&'static str> = Vec::new();
        let radix_ok = |r: u32| {
            if feat.radix {
                (2..=36).contains(&r)
            } else if feat.power_of_two {
                matches!(r, 2 | 4 | 8 | 10 | 16 | 32)
            } else {
                r == 10
            }
        };
        if !radix_ok(self.mantissa_radix()) {
            out.push("InvalidMantissaRadix");
        }
        if !radix_ok(self.exponent_base()) {
            out.push("InvalidExponentBase");
        }
        if !radix_ok(self.exponent_radix()) {
            out.push("InvalidExponentRadix");
        }
        let max_radix = self.mantissa_radix().max(self.exponent_radix());
        let ctrl_ok = |c: u8| {
            // 0 = unset; otherwise "valid ASCII for float grammar" (printable, or one of the
            // visual control characters 0x09..=0x0d), not a digit of the larger radix, not a sign
            c == 0 || (is_valid_ascii(c) && crate::numtext::digit_val(c, max_radix).is_none() && c != b'+' && c != b'-')
        };
        if feat.format {
            if !ctrl_ok(self.digit_separator) {
                out.push("InvalidDigitSeparator");
            }
        } else if self.digit_separator != 0 {
            out.push("InvalidDigitSeparator");
        }
        if feat.format && feat.power_of_two {
            if !ctrl_ok(self.base_prefix) {
                out.push("InvalidBasePrefix");
            }
            if !ctrl_ok(self.base_suffix) {
                out.push("InvalidBaseSuffix");
            }
        } else {
            if self.base_prefix != 0 {
                out.push("InvalidBasePrefix");
            }
            if self.base_suffix != 0 {
                out.push("InvalidBaseSuffix");
            }
        }
        // pairwise distinct among the set ones
        let set: Vec<u8> = [self.digit_separator, self.base_prefix, self.base_suffix].iter().copied().filter(|&c| c != 0).collect();
        for i in 0..set.len() {
            for j in i + 1..set.len() {
                if set[i] == set[j] {
                    out.push("InvalidPunctuation");
                }
            }
        }
        if !feat.format {
            // without the format feature only the default flag word is valid
            if self.flag_word() != ((1 << 2) | (1 << 3)) {
                out.push("InvalidFlags");
            }
            return out;
        }
        if self.no_exponent_notation && self.required_exponent_notation {
            out.push("InvalidExponentFlags");
        }
        if self.no_positive_mantissa_sign && self.required_mantissa_sign {
            out.push("InvalidMantissaSign");
        }
        if self.no_positive_exponent_sign && self.required_exponent_sign {
            out.push("InvalidExponentSign");
        }
        if self.no_special && (self.case_sensitive_special || self.special_digit_separator) {
            out.push("InvalidSpecial");
        }
        if self.integer_sep.consecutive && !self.integer_sep.any_position() {
            out.push("InvalidConsecutiveIntegerDigitSeparator");
        }
        if self.fraction_sep.consecutive && !self.fraction_sep.any_position() {
            out.push("InvalidConsecutiveFractionDigitSeparator");
        }
        if self.exponent_sep.consecutive && !self.exponent_sep.any_position() {
            out.push("InvalidConsecutiveExponentDigitSeparator");
        }
        out
    }

    pub fn describe(&self) -> String {
        let mut v: Vec<String> = Vec::new();
        v.push(format!("radix={}/{}/{}", self.mantissa_radix(), self.exponent_base(), self.exponent_radix()));
        for (i, n) in SYNTAX_FLAG_NAMES.iter().enumerate() {
            let on = self.syntax_flag(i);
            let default_on = i == 2 || i == 3;
            if on != default_on {
                v.push(format!("{}{}", if on { "" } else { "!" }, n));
            }
        }
        let m = |s: &SepMode| format!("{}{}{}{}", if s.internal { "I" } else { "" }, if s.leading { "L" } else { "" }, if s.trailing { "T" } else { "" }, if s.consecutive { "C" } else { "" });
        if self.has_separators() {
            v.push(format!("sep={:?} int:{} frac:{} exp:{}{}", self.digit_separator as char, m(&self.integer_sep), m(&self.fraction_sep), m(&self.exponent_sep), if self.special_digit_separator { " special" } else { "" }));
        }
        if self.base_prefix != 0 {
            v.push(format!("prefix={:?}", self.base_prefix as char));
        }
        if self.base_suffix != 0 {
            v.push(format!("suffix={:?}", self.base_suffix as char));
        }
        v.join(" ")
    }
}
