//! Reference grammar for parser input, parameterised by the harness's own `FormatModel` and an
//! options model. Written from the documentation of the `NumberFormatBuilder` setters and
//! docs/DigitSeparators.md (see DESIGN.md Appendix A). Complete-parse acceptance + digits only.

use crate::fmodel::{FormatModel, SepMode};
use crate::numtext::{digit_val, NumParts};

#[derive(Clone, Debug, PartialEq, Eq)]
pub struct OptModel {
    pub decimal_point: u8,
    pub exponent: u8,
    pub nan: Option<Vec<u8>>,
    pub inf: Option<Vec<u8>>,
    pub infinity: Option<Vec<u8>>,
}

impl OptModel {
    pub fn standard() -> OptModel {
        OptModel { decimal_point: b'.', exponent: b'e', nan: Some(b"NaN".to_vec()), inf: Some(b"inf".to_vec()), infinity: Some(b"infinity".to_vec()) }
    }
}

#[derive(Clone, Debug, PartialEq, Eq)]
pub enum RefF {
    Reject(&'static str),
    Num(NumParts),
    Nan,
    Inf(bool),
}

impl RefF {
    pub fn accepted(&self) -> bool {
        !matches!(self, RefF::Reject(_))
    }
}

#[derive(Clone, Debug, PartialEq, Eq)]
pub enum RefI {
    Reject(&'static str),
    /// sign and digit values (most significant first)
    Val(bool, Vec<u8>),
}

/// Result of scanning one digit component: digit values, and whether the separators in it are
/// all in enabled positions.
struct Comp {
    digits: Vec<u8>,
    sep_ok: bool,
    any_sep: bool,
    end: usize,
}

/// Scan a maximal run of digits of `radix` and separator bytes starting at `i`.
/// `sep` = 0 disables separators for this scan.
fn scan_component(b: &[u8], mut i: usize, radix: u32, sep: u8, mode: SepMode) -> Comp {
    let start = i;
    let mut digits = Vec::new();
    // positions (within the component) of tokens: true = digit
    let mut toks: Vec<bool> = Vec::new();
    while i < b.len() {
        let c = b[i];
        if sep != 0 && c == sep && mode.any() {
            toks.push(false);
        } else if let Some(d) = digit_val(c, radix) {
            digits.push(d);
            toks.push(true);
        } else {
            break;
        }
        i += 1;
    }
    let _ = start;
    // classify maximal separator runs
    let mut sep_ok = true;
    let mut any_sep = false;
    let n = toks.len();
    let mut k = 0;
    while k < n {
        if toks[k] {
            k += 1;
            continue;
        }
        let run_start = k;
        while k < n && !toks[k] {
            k += 1;
        }
        let run_len = k - run_start;
        any_sep = true;
        let digit_before = toks[..run_start].iter().any(|&t| t);
        let digit_after = toks[k..].iter().any(|&t| t);
        let leading = !digit_before;
        let trailing = !digit_after;
        let enabled = if leading && trailing {
            mode.leading || mode.trailing
        } else if leading {
            mode.leading
        } else if trailing {
            mode.trailing
        } else {
            mode.internal
        };
        if !enabled {
            sep_ok = false;
        }
        if run_len > 1 && !mode.consecutive {
            sep_ok = false;
        }
    }
    Comp { digits, sep_ok, any_sep, end: i }
}

fn eq_case(a: u8, b: u8, case_sensitive: bool) -> bool {
    if case_sensitive {
        a == b
    } else {
        a.eq_ignore_ascii_case(&b)
    }
}

/// Does `input` equal the special string `s` under the format's rules?
fn special_eq(input: &[u8], s: &[u8], m: &FormatModel) -> bool {
    let stripped: Vec<u8>;
    let inp: &[u8] = if m.special_digit_separator && m.digit_separator != 0 {
        stripped = input.iter().copied().filter(|&c| c != m.digit_separator).collect();
        &stripped
    } else {
        input
    };
    if inp.len() != s.len() {
        return false;
    }
    inp.iter().zip(s.iter()).all(|(&a, &b)| {
        if m.case_sensitive_special {
            a == b
        } else {
            // ASCII case-insensitive for letters
            a.eq_ignore_ascii_case(&b)
        }
    })
}

/// Is `b` (after an optional sign) a configured special string under the format's case / separator rules,
/// *without* giving numbers precedence? Some(true) = NaN, Some(false) = an infinity. Used where a radix makes
/// the special strings numeric (radix >= 19) and the order of number / special parsing is the recorded finding.
pub fn special_only(b: &[u8], m: &FormatModel, o: &OptModel) -> Option<bool> {
    if m.no_special {
        return None;
    }
    let rest = if !b.is_empty() && (b[0] == b'-' || b[0] == b'+') { &b[1..] } else { b };
    if let Some(s) = &o.nan {
        if special_eq(rest, s, m) {
            return Some(true);
        }
    }
    for s in [&o.infinity, &o.inf].into_iter().flatten() {
        if special_eq(rest, s, m) {
            return Some(false);
        }
    }
    None
}

/// Complete-parse reference for floats.
pub fn ref_parse_float(b: &[u8], m: &FormatModel, o: &OptModel) -> RefF {
    let radix = m.mantissa_radix();
    let xradix = m.exponent_radix();
    let sep = m.digit_separator;
    let mut i = 0;
    let mut parts = NumParts::default();
    // mantissa sign
    let mut has_sign = false;
    if i < b.len() && b[i] == b'-' {
        parts.neg = true;
        has_sign = true;
        i += 1;
    } else if i < b.len() && b[i] == b'+' {
        if m.no_positive_mantissa_sign {
            return RefF::Reject("positive mantissa sign not allowed");
        }
        has_sign = true;
        i += 1;
    }
    if m.required_mantissa_sign && !has_sign {
        return RefF::Reject("mantissa sign required");
    }
    let after_sign = i;
    // numbers take precedence; a special value is only tried for non-numeric input
    match ref_parse_number(b, i, parts.clone(), m, o) {
        RefF::Reject(why) => {
            if !m.no_special {
                let rest = &b[after_sign..];
                if let Some(s) = &o.nan {
                    if special_eq(rest, s, m) {
                        return RefF::Nan;
                    }
                }
                if let Some(s) = &o.infinity {
                    if special_eq(rest, s, m) {
                        return RefF::Inf(parts.neg);
                    }
                }
                if let Some(s) = &o.inf {
                    if special_eq(rest, s, m) {
                        return RefF::Inf(parts.neg);
                    }
                }
            }
            RefF::Reject(why)
        },
        other => other,
    }
}

fn ref_parse_number(b: &[u8], mut i: usize, mut parts: NumParts, m: &FormatModel, o: &OptModel) -> RefF {
    let radix = m.mantissa_radix();
    let xradix = m.exponent_radix();
    let sep = m.digit_separator;
    let after_sign = i;
    if b.len() == after_sign {
        return RefF::Reject("empty");
    }
    // optional base prefix: '0' P directly after the sign
    let mut had_prefix = false;
    if m.base_prefix != 0 && i + 1 < b.len() && b[i] == b'0' && eq_case(b[i + 1], m.base_prefix, m.case_sensitive_base_prefix) {
        had_prefix = true;
        i += 2;
    }
    // integer digits
    let int = scan_component(b, i, radix, sep, m.integer_sep);
    if !int.sep_ok {
        return RefF::Reject("separator in a disabled integer position");
    }
    i = int.end;
    parts.int = int.digits;
    if m.required_integer_digits && parts.int.is_empty() {
        return RefF::Reject("integer digits required");
    }
    if m.no_float_leading_zeros && !had_prefix && parts.int.len() > 1 && parts.int[0] == 0 {
        return RefF::Reject("leading zeros not allowed");
    }
    // fraction
    let mut has_point = false;
    if i < b.len() && b[i] == o.decimal_point {
        has_point = true;
        i += 1;
        let fr = scan_component(b, i, radix, sep, m.fraction_sep);
        if !fr.sep_ok {
            return RefF::Reject("separator in a disabled fraction position");
        }
        i = fr.end;
        parts.frac = fr.digits;
        if m.required_fraction_digits && parts.frac.is_empty() {
            return RefF::Reject("fraction digits required");
        }
    }
    if m.required_mantissa_digits && parts.int.is_empty() && parts.frac.is_empty() {
        return RefF::Reject("mantissa digits required");
    }
    // exponent
    let mut has_exp = false;
    if i < b.len() && eq_case(b[i], o.exponent, m.case_sensitive_exponent) {
        has_exp = true;
        i += 1;
        if m.no_exponent_notation {
            return RefF::Reject("exponent notation not allowed");
        }
        if m.no_exponent_without_fraction && !has_point {
            return RefF::Reject("exponent without fraction");
        }
        let mut esign = false;
        if i < b.len() && b[i] == b'-' {
            parts.exp_neg = true;
            esign = true;
            i += 1;
        } else if i < b.len() && b[i] == b'+' {
            if m.no_positive_exponent_sign {
                return RefF::Reject("positive exponent sign not allowed");
            }
            esign = true;
            i += 1;
        }
        if m.required_exponent_sign && !esign {
            return RefF::Reject("exponent sign required");
        }
        let ex = scan_component(b, i, xradix, sep, m.exponent_sep);
        if !ex.sep_ok {
            return RefF::Reject("separator in a disabled exponent position");
        }
        i = ex.end;
        parts.exp = ex.digits;
        if m.required_exponent_digits && parts.exp.is_empty() {
            return RefF::Reject("exponent digits required");
        }
    }
    if m.required_exponent_notation && !has_exp {
        return RefF::Reject("exponent notation required");
    }
    // optional base suffix
    if m.base_suffix != 0 && i < b.len() && eq_case(b[i], m.base_suffix, m.case_sensitive_base_suffix) {
        i += 1;
    }
    if i != b.len() {
        return RefF::Reject("trailing bytes");
    }
    RefF::Num(parts)
}

/// Complete-parse reference for integers.
pub fn ref_parse_int(b: &[u8], m: &FormatModel, signed: bool) -> RefI {
    let radix = m.mantissa_radix();
    let sep = m.digit_separator;
    let mut i = 0;
    let mut neg = false;
    let mut has_sign = false;
    if i < b.len() && b[i] == b'-' && signed {
        neg = true;
        has_sign = true;
        i += 1;
    } else if i < b.len() && b[i] == b'+' {
        if m.no_positive_mantissa_sign {
            return RefI::Reject("positive sign not allowed");
        }
        has_sign = true;
        i += 1;
    }
    if m.required_mantissa_sign && !has_sign {
        return RefI::Reject("sign required");
    }
    let mut had_prefix = false;
    if m.base_prefix != 0 && i + 1 < b.len() && b[i] == b'0' && eq_case(b[i + 1], m.base_prefix, m.case_sensitive_base_prefix) {
        had_prefix = true;
        i += 2;
    }
    let c = scan_component(b, i, radix, sep, m.integer_sep);
    if !c.sep_ok {
        return RefI::Reject("separator in a disabled position");
    }
    i = c.end;
    if c.digits.is_empty() {
        return RefI::Reject("digits required");
    }
    if m.no_integer_leading_zeros && !had_prefix && c.digits.len() > 1 && c.digits[0] == 0 {
        return RefI::Reject("leading zeros not allowed");
    }
    if m.base_suffix != 0 && i < b.len() && eq_case(b[i], m.base_suffix, m.case_sensitive_base_suffix) {
        i += 1;
    }
    if i != b.len() {
        return RefI::Reject("trailing bytes");
    }
    let _ = c.any_sep;
    RefI::Val(neg, c.digits)
}

/// Remove every separator byte (used by the C13 metamorphic relations).
pub fn strip_separators(b: &[u8], sep: u8) -> Vec<u8> {
    b.iter().copied().filter(|&c| c != sep).collect()
}
