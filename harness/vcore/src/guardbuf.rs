//! Guard-page buffers and the shared progress record used by the crash-monitoring supervisor.
//!
//! `GuardBuf` maps `[PROT_NONE page | data pages | PROT_NONE page]`. A slice of exactly the
//! requested length is placed flush against the trailing guard (over-reads / over-writes past
//! the end fault) or flush against the leading guard (accesses before the start fault). The rest
//! of the data pages carries a canary pattern that is checked after the call.

use std::ptr;

pub const CANARY: u8 = 0xC9;

pub struct GuardBuf {
    base: *mut u8,
    total: usize,
    data: *mut u8,
    data_len: usize,
    page: usize,
}

unsafe impl Send for GuardBuf {}

impl GuardBuf {
    /// `data_len` is rounded up to whole pages.
    pub fn new(data_len: usize) -> GuardBuf {
        let page = unsafe { libc::sysconf(libc::_SC_PAGESIZE) } as usize;
        let pages = (data_len.max(1) + page - 1) / page;
        let data_len = pages * page;
        let total = data_len + 2 * page;
        unsafe {
            let base = libc::mmap(ptr::null_mut(), total, libc::PROT_NONE, libc::MAP_PRIVATE | libc::MAP_ANONYMOUS | libc::MAP_NORESERVE, -1, 0);
            assert!(base != libc::MAP_FAILED, "mmap failed");
            let base = base as *mut u8;
            let data = base.add(page);
            let r = libc::mprotect(data as *mut libc::c_void, data_len, libc::PROT_READ | libc::PROT_WRITE);
            assert!(r == 0, "mprotect failed");
            let mut g = GuardBuf { base, total, data, data_len, page };
            g.fill_canary();
            g
        }
    }
    pub fn capacity(&self) -> usize {
        self.data_len
    }
    pub fn page(&self) -> usize {
        self.page
    }
    pub fn fill_canary(&mut self) {
        // only touch what was used before (large NORESERVE mappings stay sparse): callers that
        // use big buffers call `fill_canary_range`
        unsafe { ptr::write_bytes(self.data, CANARY, self.data_len.min(1 << 20)) };
    }
    pub fn fill_canary_range(&mut self, start: usize, len: usize) {
        let start = start.min(self.data_len);
        let len = len.min(self.data_len - start);
        unsafe { ptr::write_bytes(self.data.add(start), CANARY, len) };
    }
    /// offset of a slice of `len` bytes for the given placement
    pub fn offset(&self, len: usize, at_end: bool) -> usize {
        assert!(len <= self.data_len);
        if at_end {
            self.data_len - len
        } else {
            0
        }
    }
    /// Copy `bytes` into the buffer at the placement and return the slice (exactly bytes.len()).
    pub fn place(&mut self, bytes: &[u8], at_end: bool) -> &[u8] {
        let off = self.offset(bytes.len(), at_end);
        unsafe {
            ptr::copy_nonoverlapping(bytes.as_ptr(), self.data.add(off), bytes.len());
            std::slice::from_raw_parts(self.data.add(off), bytes.len())
        }
    }
    /// A mutable slice of exactly `len` bytes at the placement (contents = canary).
    pub fn slice_mut(&mut self, len: usize, at_end: bool) -> &mut [u8] {
        let off = self.offset(len, at_end);
        unsafe { std::slice::from_raw_parts_mut(self.data.add(off), len) }
    }
    /// Check that `window` bytes around the slice (outside it) still hold the canary.
    pub fn canary_intact(&self, len: usize, at_end: bool, window: usize) -> bool {
        let off = self.offset(len, at_end);
        let lo = off.saturating_sub(window);
        let hi = (off + len + window).min(self.data_len);
        unsafe {
            let d = std::slice::from_raw_parts(self.data, self.data_len);
            d[lo..off].iter().all(|&b| b == CANARY) && d[off + len..hi].iter().all(|&b| b == CANARY)
        }
    }
    /// Restore the canary over the slice and `window` bytes around it.
    pub fn reset(&mut self, len: usize, at_end: bool, window: usize) {
        let off = self.offset(len, at_end);
        let lo = off.saturating_sub(window);
        let hi = (off + len + window).min(self.data_len);
        unsafe { ptr::write_bytes(self.data.add(lo), CANARY, hi - lo) };
    }
}

impl Drop for GuardBuf {
    fn drop(&mut self) {
        unsafe {
            libc::munmap(self.base as *mut libc::c_void, self.total);
        }
    }
}

// ---------------------------------------------------------------------------------------------
// shared progress record (MAP_SHARED file): written by the worker before every guarded call

pub const PROGRESS_SIZE: usize = 1 << 16;
const HDR: usize = 32;

pub struct Progress {
    ptr: *mut u8,
}

unsafe impl Send for Progress {}
unsafe impl Sync for Progress {}

impl Progress {
    pub fn open(path: &str, create: bool) -> Progress {
        use std::os::unix::io::AsRawFd;
        let f = std::fs::OpenOptions::new().read(true).write(true).create(create).open(path).expect("open progress file");
        if create {
            f.set_len(PROGRESS_SIZE as u64).expect("size progress file");
        }
        unsafe {
            let p = libc::mmap(ptr::null_mut(), PROGRESS_SIZE, libc::PROT_READ | libc::PROT_WRITE, libc::MAP_SHARED, f.as_raw_fd(), 0);
            assert!(p != libc::MAP_FAILED, "mmap progress failed");
            Progress { ptr: p as *mut u8 }
        }
    }
    /// a private in-memory record (for in-process use / replay)
    pub fn dummy() -> Progress {
        let v = vec![0u8; PROGRESS_SIZE].into_boxed_slice();
        Progress { ptr: Box::leak(v).as_mut_ptr() }
    }
    /// record the case about to run: a counter plus an opaque descriptor
    #[inline]
    pub fn record(&self, fields: [u32; 6], payload: &[u8]) {
        unsafe {
            let n = payload.len().min(PROGRESS_SIZE - HDR - 8);
            let f = self.ptr.add(8) as *mut u32;
            for (i, v) in fields.iter().enumerate() {
                ptr::write_volatile(f.add(i), *v);
            }
            ptr::write_volatile(self.ptr.add(HDR) as *mut u32, n as u32);
            ptr::copy_nonoverlapping(payload.as_ptr(), self.ptr.add(HDR + 8), n);
            let c = self.ptr as *mut u64;
            ptr::write_volatile(c, ptr::read_volatile(c).wrapping_add(1));
        }
    }
    pub fn counter(&self) -> u64 {
        unsafe { ptr::read_volatile(self.ptr as *const u64) }
    }
    pub fn read(&self) -> ([u32; 6], Vec<u8>) {
        unsafe {
            let f = self.ptr.add(8) as *const u32;
            let mut fields = [0u32; 6];
            for i in 0..6 {
                fields[i] = ptr::read_volatile(f.add(i));
            }
            let n = (ptr::read_volatile(self.ptr.add(HDR) as *const u32) as usize).min(PROGRESS_SIZE - HDR - 8);
            let mut v = vec![0u8; n];
            ptr::copy_nonoverlapping(self.ptr.add(HDR + 8), v.as_mut_ptr(), n);
            (fields, v)
        }
    }
}
