//! Evidence accumulation, violations, known findings, and the proptest driver.

use proptest::strategy::{Strategy, ValueTree};
use proptest::test_runner::{Config, RngAlgorithm, TestCaseError, TestError, TestRng, TestRunner};
use serde_json::{json, Value};
use std::cell::RefCell;
use std::collections::{BTreeMap, HashSet};
use std::fmt::Debug;
use std::panic::{catch_unwind, AssertUnwindSafe};
use std::sync::atomic::{AtomicUsize, Ordering};
use std::sync::Mutex;

#[derive(Clone, Copy, Debug, PartialEq, Eq)]
pub enum Tier {
    Quick,
    Thorough,
}

#[derive(Clone, Debug)]
pub struct Ctx {
    pub property: String,
    pub tier: Tier,
    pub seed: u64,
    pub config: String,
    pub profile: String,
    pub threads: usize,
    /// names of active known-finding matchers (from known_findings.json)
    pub known: Vec<String>,
    /// multiplier applied to generated-case counts (VERIF_SCALE, default 1.0)
    pub scale: f64,
}

impl Ctx {
    pub fn thorough(&self) -> bool {
        self.tier == Tier::Thorough
    }
    pub fn known_active(&self, matcher: &str) -> bool {
        self.known.iter().any(|k| k == matcher)
    }
    /// pick the case count for the tier
    pub fn n(&self, quick: u64, thorough: u64) -> u64 {
        let base = if self.thorough() { thorough } else { quick };
        ((base as f64) * self.scale).max(1.0) as u64
    }
}

/// cap on recorded violations per sub-check (VERIF_MAXVIOL, default 3; raise for triage)
pub fn max_viol() -> usize {
    std::env::var("VERIF_MAXVIOL").ok().and_then(|s| s.parse().ok()).unwrap_or(3)
}

pub fn mix(seed: u64, parts: &[&str]) -> u64 {
    // FNV-1a then splitmix finaliser
    let mut h: u64 = 0xcbf29ce484222325 ^ seed.wrapping_mul(0x9E3779B97F4A7C15);
    for p in parts {
        for b in p.bytes() {
            h ^= b as u64;
            h = h.wrapping_mul(0x100000001b3);
        }
        h ^= 0xff;
        h = h.wrapping_mul(0x100000001b3);
    }
    splitmix(h)
}

pub fn splitmix(mut z: u64) -> u64 {
    z = z.wrapping_add(0x9E3779B97F4A7C15);
    z = (z ^ (z >> 30)).wrapping_mul(0xBF58476D1CE4E5B9);
    z = (z ^ (z >> 27)).wrapping_mul(0x94D049BB133111EB);
    z ^ (z >> 31)
}

pub fn hash_bytes(bytes: &[u8]) -> u64 {
    let mut h: u64 = 0xcbf29ce484222325;
    for &b in bytes {
        h ^= b as u64;
        h = h.wrapping_mul(0x100000001b3);
    }
    splitmix(h)
}

#[derive(Clone, Debug)]
pub struct Violation {
    pub subcheck: String,
    pub message: String,
    pub case: Value,
}

/// A failing verdict from an oracle.
#[derive(Clone, Debug)]
pub struct Fail {
    pub message: String,
    /// name of a known-finding matcher that recognises this failure shape (if any)
    pub matcher: Option<&'static str>,
}

impl Fail {
    pub fn new(message: impl Into<String>) -> Fail {
        Fail { message: message.into(), matcher: None }
    }
    pub fn known(message: impl Into<String>, matcher: &'static str) -> Fail {
        Fail { message: message.into(), matcher: Some(matcher) }
    }
}

/// largest exact distinct-case set per accumulator (2^23 hashes, 64 MiB or so); beyond it the set is sampled
pub const NT_CAP: usize = 1 << 23;

/// Per-worker accumulator; merged in worker order.
#[derive(Default, Debug)]
pub struct Local {
    pub evaluations: u64,
    pub nontrivial: HashSet<u64>,
    /// adaptive sampling of the distinct-case sketch: only hashes whose low `nt_shift` bits are zero are kept once the
    /// set has outgrown NT_CAP; the distinct count is then the estimate len << nt_shift (exact while nt_shift == 0)
    pub nt_shift: u32,
    /// non-trivial cases from exhaustive enumerations (distinct by construction)
    pub nontrivial_enum: u64,
    pub classes: BTreeMap<String, u64>,
    pub samples: Vec<Value>,
    pub excluded: BTreeMap<String, u64>,
    pub frozen: bool,
    pub sample_cap: usize,
}

impl Local {
    pub fn new() -> Local {
        Local { sample_cap: 6, ..Default::default() }
    }
    #[inline]
    pub fn eval(&mut self, n: u64) {
        PROGRESS.fetch_add(1, std::sync::atomic::Ordering::Relaxed);
        if !self.frozen {
            self.evaluations += n;
        }
    }
    #[inline]
    pub fn class(&mut self, c: &str) {
        if !self.frozen {
            *self.classes.entry(c.to_string()).or_insert(0) += 1;
        }
    }
    #[inline]
    pub fn class_n(&mut self, c: &str, n: u64) {
        if !self.frozen {
            *self.classes.entry(c.to_string()).or_insert(0) += n;
        }
    }
    #[inline]
    pub fn nontrivial_hash(&mut self, h: u64) {
        if !self.frozen {
            // the sketch sees a mixed hash, so that its low bits are uniform whatever the caller hashed
            let h = splitmix(h);
            if h & ((1u64 << self.nt_shift) - 1) == 0 {
                self.nontrivial.insert(h);
                if self.nontrivial.len() > NT_CAP {
                    self.nt_halve();
                }
            }
        }
    }
    #[inline]
    pub fn nontrivial_bytes(&mut self, salt: u64, b: &[u8]) {
        self.nontrivial_hash(hash_bytes(b) ^ splitmix(salt));
    }
    fn nt_halve(&mut self) {
        while self.nontrivial.len() > NT_CAP {
            self.nt_shift += 1;
            let mask = (1u64 << self.nt_shift) - 1;
            self.nontrivial.retain(|x| x & mask == 0);
        }
    }
    /// distinct non-trivial cases: exact up to NT_CAP hashed cases per sub-check, an unbiased estimate beyond
    pub fn distinct(&self) -> u64 {
        ((self.nontrivial.len() as u64) << self.nt_shift) + self.nontrivial_enum
    }
    pub fn want_sample(&self) -> bool {
        !self.frozen && self.samples.len() < self.sample_cap
    }
    pub fn sample(&mut self, v: Value) {
        if self.want_sample() {
            self.samples.push(v);
        }
    }
    pub fn merge(&mut self, other: Local) {
        self.evaluations += other.evaluations;
        self.nontrivial_enum += other.nontrivial_enum;
        if other.nt_shift > self.nt_shift {
            self.nt_shift = other.nt_shift;
            let mask = (1u64 << self.nt_shift) - 1;
            self.nontrivial.retain(|x| x & mask == 0);
        }
        let mask = (1u64 << self.nt_shift) - 1;
        self.nontrivial.extend(other.nontrivial.into_iter().filter(|x| x & mask == 0));
        self.nt_halve();
        for (k, v) in other.classes {
            *self.classes.entry(k).or_insert(0) += v;
        }
        for (k, v) in other.excluded {
            *self.excluded.entry(k).or_insert(0) += v;
        }
        for s in other.samples {
            if self.samples.len() < 40 {
                self.samples.push(s);
            }
        }
    }
}

/// Whole-run report for one (property, config, profile).
#[derive(Default, Debug)]
pub struct Report {
    pub subchecks: BTreeMap<String, Local>,
    pub violations: Vec<Violation>,
    pub notes: Vec<String>,
    pub exhaustive: Vec<String>,
    pub rule: String,
    pub assumptions: Vec<String>,
    pub extra: BTreeMap<String, Value>,
}

impl Report {
    pub fn add(&mut self, sub: &str, local: Local) {
        self.subchecks.entry(sub.to_string()).or_insert_with(Local::new).merge(local);
    }
    pub fn violation(&mut self, sub: &str, message: String, case: Value) {
        self.violations.push(Violation { subcheck: sub.to_string(), message, case });
    }
    pub fn to_json(&self, ctx: &Ctx, wall_s: f64) -> Value {
        let mut evaluations = 0u64;
        let mut distinct = 0u64;
        let mut subs = serde_json::Map::new();
        let mut samples: Vec<Value> = Vec::new();
        let mut excluded: BTreeMap<String, u64> = BTreeMap::new();
        for (name, l) in &self.subchecks {
            evaluations += l.evaluations;
            let d = l.distinct();
            distinct += d;
            subs.insert(
                name.clone(),
                json!({"evaluations": l.evaluations, "distinct_nontrivial": d, "classes": l.classes}),
            );
            for s in l.samples.iter().take(8) {
                samples.push(json!({"subcheck": name, "case": s}));
            }
            for (k, v) in &l.excluded {
                *excluded.entry(k.clone()).or_insert(0) += v;
            }
        }
        json!({
            "property_id": ctx.property,
            "config": ctx.config,
            "profile": ctx.profile,
            "tier": if ctx.thorough() {"thorough"} else {"quick"},
            "seed": ctx.seed,
            "evaluations": evaluations,
            "distinct_nontrivial": distinct,
            "rule": self.rule,
            "subchecks": subs,
            "samples": samples,
            "excluded_known": excluded,
            "exhaustive_subdomains": self.exhaustive,
            "assumptions": self.assumptions,
            "notes": self.notes,
            "extra": self.extra,
            "wall_s": wall_s,
            "violations": self.violations.iter().map(|v| json!({
                "subcheck": v.subcheck, "message": v.message, "case": v.case
            })).collect::<Vec<_>>(),
        })
    }
}

// ---------------------------------------------------------------------------------------------
// watchdog: a library call that never returns must not hang the check

/// bumped by every oracle evaluation of every worker thread
pub static PROGRESS: std::sync::atomic::AtomicU64 = std::sync::atomic::AtomicU64::new(0);

/// failures seen so far (unshrunk, recorded at first sight): only used if the watchdog has to end the run
static EARLY: std::sync::Mutex<Vec<(String, String, Value)>> = std::sync::Mutex::new(Vec::new());

fn early_push(sub: &str, msg: &str, case: Value) {
    if let Ok(mut e) = EARLY.lock() {
        if e.len() < 8 {
            e.push((sub.to_string(), msg.to_string(), case));
        }
    }
}

/// When no worker thread has completed an evaluation for `limit_s` seconds (VERIF_WATCHDOG_S, default
/// 600) the run is ended: a minimal report with the failures seen so far (unshrunk) is written to `out`
/// and the process exits with status 3 ("report written, infrastructure problem"; run.py reports the
/// recorded violations and otherwise exit 2 - a hang by itself is never reported as a violation).
static RUN_INFO: std::sync::OnceLock<(String, Value)> = std::sync::OnceLock::new();

/// per-worker record of the case being evaluated (for the stalled-call monitor of the proptest drivers)
pub struct Slot<C> {
    beat: std::sync::atomic::AtomicU64,
    cur: Mutex<Option<C>>,
}

impl<C: Clone> Slot<C> {
    pub fn new() -> Slot<C> {
        Slot { beat: std::sync::atomic::AtomicU64::new(0), cur: Mutex::new(None) }
    }
    #[inline]
    pub fn enter(&self, c: &C) {
        if let Ok(mut g) = self.cur.lock() {
            *g = Some(c.clone());
        }
        self.beat.fetch_add(1, Ordering::Relaxed);
    }
    #[inline]
    pub fn leave(&self) {
        if let Ok(mut g) = self.cur.lock() {
            *g = None;
        }
        self.beat.fetch_add(1, Ordering::Relaxed);
    }
}

struct StopOnDrop<'a>(&'a std::sync::atomic::AtomicBool);
impl Drop for StopOnDrop<'_> {
    fn drop(&mut self) {
        self.0.store(true, Ordering::Relaxed);
    }
}

/// Re-execute one case alone (`<this binary> replay <file>`) with a 60 s limit, twice; true = it never returned.
pub fn confirm_hang(property: &str, sub: &str, config: &str, profile: &str, case: &Value) -> bool {
    let dir = std::env::var("VERIF_SHM_DIR").unwrap_or_else(|_| "/dev/shm".into());
    let file = format!("{dir}/verif-hang-{}-{:x}.json", std::process::id(), splitmix(hash_bytes(case.to_string().as_bytes())));
    let body = json!({"property": property, "subcheck": sub, "config": config, "profile": profile, "case": case});
    if std::fs::write(&file, body.to_string()).is_err() {
        return false;
    }
    let exe = match std::env::current_exe() {
        Ok(e) => e,
        Err(_) => return false,
    };
    let mut hung = true;
    for _ in 0..2 {
        let mut child = match std::process::Command::new(&exe)
            .args(["replay", &file])
            .stdin(std::process::Stdio::null())
            .stdout(std::process::Stdio::null())
            .stderr(std::process::Stdio::null())
            .spawn()
        {
            Ok(c) => c,
            Err(_) => {
                hung = false;
                break;
            },
        };
        let t0 = std::time::Instant::now();
        let mut returned = false;
        while t0.elapsed().as_secs() < 60 {
            if let Ok(Some(_)) = child.try_wait() {
                returned = true;
                break;
            }
            std::thread::sleep(std::time::Duration::from_millis(100));
        }
        if returned {
            hung = false;
            break;
        }
        let _ = child.kill();
        let _ = child.wait();
    }
    let _ = std::fs::remove_file(&file);
    hung
}

/// Monitor of one proptest sub-check: a worker that stays in one case for VERIF_CASE_STALL_S (default 45)
/// seconds is examined: its case is re-executed alone in a fresh process (`confirm_hang`); if that does
/// not return either, the run is ended with a report that carries the case as a "does not return"
/// violation (plus the failures seen so far); otherwise the stall is put down to a starved machine.
fn stall_monitor<C: Clone>(slots: &[Slot<C>], stop: &std::sync::atomic::AtomicBool, render: &(dyn Fn(usize, &C) -> Value + Sync), sub: &str, ctx: &Ctx) {
    let limit = std::env::var("VERIF_CASE_STALL_S").ok().and_then(|s| s.parse::<u64>().ok()).unwrap_or(45);
    let mut seen: Vec<(u64, std::time::Instant, bool)> = slots.iter().map(|s| (s.beat.load(Ordering::Relaxed), std::time::Instant::now(), false)).collect();
    while !stop.load(Ordering::Relaxed) {
        std::thread::sleep(std::time::Duration::from_millis(500));
        for (i, s) in slots.iter().enumerate() {
            let b = s.beat.load(Ordering::Relaxed);
            if b != seen[i].0 {
                seen[i] = (b, std::time::Instant::now(), false);
                continue;
            }
            if seen[i].2 || seen[i].1.elapsed().as_secs() < limit {
                continue;
            }
            let cur = s.cur.lock().ok().and_then(|g| g.clone());
            let case = match cur {
                Some(c) => c,
                None => continue,
            };
            let mut cj = render(i, &case);
            if confirm_hang(&ctx.property, sub, &ctx.config, &ctx.profile, &cj) {
                if let Some(o) = cj.as_object_mut() {
                    o.insert("hang".into(), json!(true));
                }
                let msg = format!("the call does not return: a worker stayed in this case for {limit} s and the case, re-executed alone in a fresh process, did not return within 60 s (twice)");
                eprintln!("NON-TERMINATION {} {sub}: {cj}", ctx.property);
                if let Some((out, ctx_json)) = RUN_INFO.get() {
                    let early = EARLY.lock().map(|e| e.clone()).unwrap_or_default();
                    let mut rep = ctx_json.clone();
                    rep["evaluations"] = json!(PROGRESS.load(Ordering::Relaxed));
                    rep["distinct_nontrivial"] = json!(0);
                    rep["rule"] = json!("");
                    rep["subchecks"] = json!({});
                    rep["samples"] = json!([]);
                    rep["wall_s"] = json!(0.0);
                    rep["notes"] = json!(["the run was ended because a call into the library did not return; other violations listed are unshrunk first sightings"]);
                    let mut v: Vec<Value> = vec![json!({"subcheck": format!("{sub}:non-termination"), "message": msg, "case": cj})];
                    v.extend(early.iter().map(|(s, m, c)| json!({"subcheck": s, "message": format!("(before a hang ended the run) {m}"), "case": c})));
                    rep["violations"] = Value::Array(v);
                    let _ = std::fs::write(out, serde_json::to_string(&rep).unwrap_or_default());
                }
                std::process::exit(3);
            }
            // the case returned when run alone: starved machine; do not examine this beat again
            seen[i].2 = true;
        }
    }
}

pub fn start_watchdog(what: String, out: String, ctx_json: Value) {
    let _ = RUN_INFO.set((out.clone(), ctx_json.clone()));
    let limit_s = std::env::var("VERIF_WATCHDOG_S").ok().and_then(|s| s.parse::<u64>().ok()).unwrap_or(600);
    std::thread::spawn(move || {
        let mut last = PROGRESS.load(std::sync::atomic::Ordering::Relaxed);
        let mut since = std::time::Instant::now();
        loop {
            std::thread::sleep(std::time::Duration::from_secs(2));
            let now = PROGRESS.load(std::sync::atomic::Ordering::Relaxed);
            if now != last {
                last = now;
                since = std::time::Instant::now();
            } else if since.elapsed().as_secs() >= limit_s {
                eprintln!("WATCHDOG: {what}: no oracle evaluation completed for {limit_s} s (a call into the library does not return, or the machine is starved); inconclusive");
                let early = EARLY.lock().map(|e| e.clone()).unwrap_or_default();
                let mut rep = ctx_json.clone();
                rep["evaluations"] = json!(now);
                rep["distinct_nontrivial"] = json!(0);
                rep["rule"] = json!("");
                rep["subchecks"] = json!({});
                rep["samples"] = json!([]);
                rep["wall_s"] = json!(0.0);
                rep["notes"] = json!([format!("watchdog: no evaluation completed for {limit_s} s; the run was ended; violations listed are unshrunk first sightings")]);
                rep["violations"] = Value::Array(early.iter().map(|(s, m, c)| json!({"subcheck": s, "message": format!("(before a hang ended the run) {m}"), "case": c})).collect());
                let _ = std::fs::write(&out, serde_json::to_string(&rep).unwrap_or_default());
                std::process::exit(3);
            }
        }
    });
}

// panic capture

thread_local! {
    static LAST_PANIC: RefCell<Option<String>> = RefCell::new(None);
}

pub fn install_quiet_panic_hook() {
    std::panic::set_hook(Box::new(|info| {
        let msg = if let Some(s) = info.payload().downcast_ref::<&str>() {
            s.to_string()
        } else if let Some(s) = info.payload().downcast_ref::<String>() {
            s.clone()
        } else {
            "<non-string panic>".to_string()
        };
        let loc = info.location().map(|l| format!("{}:{}", l.file(), l.line())).unwrap_or_default();
        // a panic in the harness itself (outside `guard`) would otherwise end the process silently
        if std::env::var_os("VERIF_LOUD_PANICS").is_some() || !loc.contains("/repo/") {
            eprintln!("panic: {msg} @ {loc}");
        }
        LAST_PANIC.with(|p| *p.borrow_mut() = Some(format!("{msg} @ {loc}")));
    }));
}

/// Hook for the cargo-fuzz targets (libfuzzer-sys installs a hook that aborts on *every* panic, also
/// the documented ones the checks observe through `guard`): a panic whose message starts with
/// "VIOLATION" is printed and aborts the process (libFuzzer saves the input); every other panic is
/// recorded for `guard` exactly as in the proptest drivers.
pub fn install_fuzz_panic_hook() {
    std::panic::set_hook(Box::new(|info| {
        let msg = if let Some(s) = info.payload().downcast_ref::<&str>() {
            s.to_string()
        } else if let Some(s) = info.payload().downcast_ref::<String>() {
            s.clone()
        } else {
            "<non-string panic>".to_string()
        };
        let loc = info.location().map(|l| format!("{}:{}", l.file(), l.line())).unwrap_or_default();
        if msg.starts_with("VIOLATION") {
            eprintln!("{msg}");
            std::process::abort();
        }
        LAST_PANIC.with(|p| *p.borrow_mut() = Some(format!("{msg} @ {loc}")));
    }));
}

/// Run `f`, turning a panic into Err(message @ location).
pub fn guard<T>(f: impl FnOnce() -> T) -> Result<T, String> {
    match catch_unwind(AssertUnwindSafe(f)) {
        Ok(v) => Ok(v),
        Err(_) => Err(LAST_PANIC.with(|p| p.borrow_mut().take()).unwrap_or_else(|| "<panic>".into())),
    }
}

// ---------------------------------------------------------------------------------------------
// parallel logical workers

/// Run `n_workers` logical workers on `threads` OS threads; results returned in worker order.
pub fn run_workers<T: Send>(threads: usize, n_workers: usize, f: impl Fn(usize) -> T + Sync) -> Vec<T> {
    let next = AtomicUsize::new(0);
    let results: Mutex<Vec<Option<T>>> = Mutex::new((0..n_workers).map(|_| None).collect());
    std::thread::scope(|s| {
        for _ in 0..threads.min(n_workers).max(1) {
            s.spawn(|| loop {
                let i = next.fetch_add(1, Ordering::SeqCst);
                if i >= n_workers {
                    break;
                }
                let r = f(i);
                results.lock().unwrap()[i] = Some(r);
            });
        }
    });
    results.into_inner().unwrap().into_iter().map(|x| x.expect("worker did not finish")).collect()
}

// ---------------------------------------------------------------------------------------------
// proptest driver

/// Outcome of a single property evaluation.
pub type CaseResult = Result<(), Fail>;

/// Drive `test` with `cases` generated values of `strategy` split over logical workers.
/// Failures recognised by an *active* known-finding matcher are counted and treated as passes
/// (so the search continues behind them); any other failure is shrunk by proptest and recorded
/// as a violation with the shrunk case serialised through `to_json`.
pub fn run_prop<C, S>(
    rep: &mut Report,
    ctx: &Ctx,
    sub: &str,
    cases: u64,
    make_strategy: impl Fn() -> S + Sync,
    to_json: impl Fn(&C) -> Value + Sync,
    test: impl Fn(&C, &mut Local) -> CaseResult + Sync,
) where
    C: Debug + Clone + Send,
    S: Strategy<Value = C>,
{
    let n_workers = if cases < 2000 { 1 } else { 32 };
    let per = (cases + n_workers as u64 - 1) / n_workers as u64;
    let slots: Vec<Slot<C>> = (0..n_workers).map(|_| Slot::new()).collect();
    let stop = std::sync::atomic::AtomicBool::new(false);
    let render = |_w: usize, c: &C| to_json(c);
    let results = std::thread::scope(|sc| {
        sc.spawn(|| stall_monitor(&slots, &stop, &render, sub, ctx));
        // the flag is set on every exit path (also when a worker panics), or the scope would wait for the monitor for ever
        let _stop_guard = StopOnDrop(&stop);
        run_prop_workers(ctx, sub, n_workers, per, &slots, &make_strategy, &to_json, &test)
    });
    let mut merged = Local::new();
    for (l, v) in results {
        merged.merge(l);
        if let Some((msg, case)) = v {
            // keep at most 3 violations per subcheck (distinct seeds usually find the same root cause)
            if rep.violations.iter().filter(|x| x.subcheck == sub).count() < max_viol() {
                rep.violation(sub, msg, case);
            }
        }
    }
    rep.add(sub, merged);
}

fn run_prop_workers<C, S>(
    ctx: &Ctx,
    sub: &str,
    n_workers: usize,
    per: u64,
    slots: &[Slot<C>],
    make_strategy: &(impl Fn() -> S + Sync),
    to_json: &(impl Fn(&C) -> Value + Sync),
    test: &(impl Fn(&C, &mut Local) -> CaseResult + Sync),
) -> Vec<(Local, Option<(String, Value)>)>
where
    C: Debug + Clone + Send,
    S: Strategy<Value = C>,
{
    run_workers(ctx.threads, n_workers, |w| {
        let seed = mix(ctx.seed, &[&ctx.property, sub, &ctx.config, &w.to_string()]);
        let mut seed_bytes = [0u8; 32];
        for i in 0..4 {
            seed_bytes[i * 8..(i + 1) * 8].copy_from_slice(&splitmix(seed.wrapping_add(i as u64)).to_le_bytes());
        }
        let rng = TestRng::from_seed(RngAlgorithm::ChaCha, &seed_bytes);
        let config = Config {
            cases: per as u32,
            failure_persistence: None,
            max_shrink_iters: 3000,
            max_local_rejects: 1_000_000,
            max_global_rejects: 1_000_000,
            verbose: 0,
            ..Config::default()
        };
        let mut runner = TestRunner::new_with_rng(config, rng);
        let local = RefCell::new(Local::new());
        let last_fail: RefCell<Option<Fail>> = RefCell::new(None);
        let strategy = make_strategy();
        let res = runner.run(&strategy, |case| {
            let mut l = local.borrow_mut();
            slots[w].enter(&case);
            let r = match guard(|| test(&case, &mut l)) {
                Ok(r) => r,
                Err(p) => Err(Fail::new(format!("harness/oracle panic (not a library verdict): {p}"))),
            };
            slots[w].leave();
            match r {
                Ok(()) => Ok(()),
                Err(f) => {
                    if let Some(m) = f.matcher {
                        if ctx.known_active(m) {
                            if !l.frozen {
                                *l.excluded.entry(m.to_string()).or_insert(0) += 1;
                            }
                            return Ok(());
                        }
                    }
                    if !l.frozen {
                        early_push(sub, &f.message, to_json(&case));
                    }
                    l.frozen = true;
                    let msg = f.message.clone();
                    *last_fail.borrow_mut() = Some(f);
                    Err(TestCaseError::fail(msg))
                },
            }
        });
        let mut viol = None;
        if let Err(e) = res {
            match e {
                TestError::Fail(reason, value) => {
                    viol = Some((reason.message().to_string(), to_json(&value)));
                },
                TestError::Abort(reason) => {
                    viol = Some((format!("proptest aborted: {}", reason.message()), json!(null)));
                },
            }
        }
        (local.into_inner(), viol)
    })
}

/// Like `run_prop`, but one single-threaded proptest runner per *job* (e.g. per format), jobs
/// being distributed over the thread pool. All jobs report into subcheck `sub`.
pub fn run_prop_jobs<J, C, S>(
    rep: &mut Report,
    ctx: &Ctx,
    sub: &str,
    jobs: &[J],
    cases_per_job: u64,
    make_strategy: impl Fn(&J) -> S + Sync,
    to_json: impl Fn(&J, &C) -> Value + Sync,
    test: impl Fn(&J, &C, &mut Local) -> CaseResult + Sync,
) where
    J: Sync,
    C: Debug + Clone + Send,
    S: Strategy<Value = C>,
{
    let slots: Vec<Slot<C>> = (0..jobs.len()).map(|_| Slot::new()).collect();
    let stop = std::sync::atomic::AtomicBool::new(false);
    let render = |w: usize, c: &C| to_json(&jobs[w], c);
    let results = std::thread::scope(|sc| {
        sc.spawn(|| stall_monitor(&slots, &stop, &render, sub, ctx));
        let _stop_guard = StopOnDrop(&stop);
        run_prop_jobs_workers(ctx, sub, jobs, cases_per_job, &slots, &make_strategy, &to_json, &test)
    });
    let mut merged = Local::new();
    for (l, v) in results {
        merged.merge(l);
        if let Some((msg, case)) = v {
            if rep.violations.iter().filter(|x| x.subcheck == sub).count() < max_viol().max(12) {
                rep.violation(sub, msg, case);
            }
        }
    }
    rep.add(sub, merged);
}

fn run_prop_jobs_workers<J, C, S>(
    ctx: &Ctx,
    sub: &str,
    jobs: &[J],
    cases_per_job: u64,
    slots: &[Slot<C>],
    make_strategy: &(impl Fn(&J) -> S + Sync),
    to_json: &(impl Fn(&J, &C) -> Value + Sync),
    test: &(impl Fn(&J, &C, &mut Local) -> CaseResult + Sync),
) -> Vec<(Local, Option<(String, Value)>)>
where
    J: Sync,
    C: Debug + Clone + Send,
    S: Strategy<Value = C>,
{
    run_workers(ctx.threads, jobs.len(), |w| {
        let job = &jobs[w];
        let seed = mix(ctx.seed, &[&ctx.property, sub, &ctx.config, "job", &w.to_string()]);
        let mut seed_bytes = [0u8; 32];
        for i in 0..4 {
            seed_bytes[i * 8..(i + 1) * 8].copy_from_slice(&splitmix(seed.wrapping_add(i as u64)).to_le_bytes());
        }
        let rng = TestRng::from_seed(RngAlgorithm::ChaCha, &seed_bytes);
        let config = Config {
            cases: cases_per_job as u32,
            failure_persistence: None,
            max_shrink_iters: 3000,
            max_local_rejects: 1_000_000,
            max_global_rejects: 1_000_000,
            verbose: 0,
            ..Config::default()
        };
        let mut runner = TestRunner::new_with_rng(config, rng);
        let mut l0 = Local::new();
        l0.sample_cap = 1;
        let local = RefCell::new(l0);
        let strategy = make_strategy(job);
        let res = runner.run(&strategy, |case| {
            let mut l = local.borrow_mut();
            slots[w].enter(&case);
            let r = match guard(|| test(job, &case, &mut l)) {
                Ok(r) => r,
                Err(p) => Err(Fail::new(format!("harness/oracle panic (not a library verdict): {p}"))),
            };
            slots[w].leave();
            match r {
                Ok(()) => Ok(()),
                Err(f) => {
                    if let Some(m) = f.matcher {
                        if ctx.known_active(m) {
                            if !l.frozen {
                                *l.excluded.entry(m.to_string()).or_insert(0) += 1;
                            }
                            return Ok(());
                        }
                    }
                    if !l.frozen {
                        early_push(sub, &f.message, to_json(job, &case));
                    }
                    l.frozen = true;
                    Err(TestCaseError::fail(f.message))
                },
            }
        });
        let mut viol = None;
        if let Err(e) = res {
            match e {
                TestError::Fail(reason, value) => {
                    viol = Some((reason.message().to_string(), to_json(job, &value)));
                },
                TestError::Abort(reason) => {
                    viol = Some((format!("proptest aborted: {}", reason.message()), json!(null)));
                },
            }
        }
        (local.into_inner(), viol)
    })
}

/// Drive an exhaustive / stratified enumeration: `n_chunks` chunks processed by logical workers.
/// `test_chunk(chunk_index, &mut Local, &mut Vec<(String, Value)>)` pushes violations itself.
pub fn run_enum(
    rep: &mut Report,
    ctx: &Ctx,
    sub: &str,
    n_chunks: usize,
    test_chunk: impl Fn(usize, &mut Local, &mut Vec<(String, Value)>) + Sync,
) {
    let results = run_workers(ctx.threads, n_chunks, |w| {
        let mut l = Local::new();
        l.sample_cap = if w == 0 { 6 } else { 1 };
        let mut v = Vec::new();
        if let Err(p) = guard(|| test_chunk(w, &mut l, &mut v)) {
            v.push((format!("harness/oracle panic (not a library verdict): {p}"), json!({"chunk": w})));
        }
        (l, v)
    });
    let mut merged = Local::new();
    for (l, vs) in results {
        merged.merge(l);
        for (msg, case) in vs {
            if rep.violations.iter().filter(|x| x.subcheck == sub).count() < max_viol() {
                rep.violation(sub, msg, case);
            }
        }
    }
    rep.add(sub, merged);
}

/// Apply the known-finding filter for enumeration-style checks: returns true if the failure
/// should be reported (i.e. is not an active known finding).
pub fn filter_known(ctx: &Ctx, l: &mut Local, f: &Fail) -> bool {
    if let Some(m) = f.matcher {
        if ctx.known_active(m) {
            *l.excluded.entry(m.to_string()).or_insert(0) += 1;
            return false;
        }
    }
    true
}

/// Minimal shrinking helper for enumeration checks is unnecessary (inputs are already minimal
/// by enumeration order); kept here for symmetry.
pub fn noop() {}

/// Simple deterministic new-tree sampler: draw one value from a strategy with a seed (used to
/// build deterministic corpora outside of `run_prop`).
pub fn sample_strategy<S: Strategy>(strategy: &S, seed: u64, n: usize) -> Vec<S::Value> {
    let mut seed_bytes = [0u8; 32];
    for i in 0..4 {
        seed_bytes[i * 8..(i + 1) * 8].copy_from_slice(&splitmix(seed.wrapping_add(i as u64)).to_le_bytes());
    }
    let rng = TestRng::from_seed(RngAlgorithm::ChaCha, &seed_bytes);
    let mut runner = TestRunner::new_with_rng(Config { failure_persistence: None, ..Config::default() }, rng);
    (0..n).map(|_| strategy.new_tree(&mut runner).expect("strategy").current()).collect()
}
