//! proptest strategies shared by the checks. Every random choice is made by proptest so that
//! shrinking and seeding work; index choices are mapped monotonically.

use crate::big::Big;
use crate::flt::FloatKind;
use crate::numtext::{digit_char, Radices};
use proptest::prelude::*;
use proptest::strategy::BoxedStrategy;

/// Monotone index map: u16 -> 0..len
/// Bytes that sit directly next to a digit range of the radix in the ASCII table: the symbol whose
/// digit value *equals* the radix (`:` for radix 10 - it follows `9` -, `G`/`g` for 16, `2` for 2),
/// the neighbours of the three digit ranges (`/ : @ [ \` {`), and the largest digit with its high bit
/// set. An off-by-one in a digit classifier or a careless case fold shows on exactly these bytes.
pub fn boundary_bytes(radix: u32) -> Vec<u8> {
    let mut v = vec![b'/', b':', b'@', b'[', b'`', b'{'];
    let at = if radix < 10 { b'0' + radix as u8 } else if radix == 10 { b':' } else if radix < 36 { b'A' + (radix - 10) as u8 } else { b'[' };
    v.push(at);
    if at.is_ascii_uppercase() {
        v.push(at.to_ascii_lowercase());
    }
    if radix == 36 {
        v.push(b'{');
    }
    let top = if radix <= 10 { b'0' + (radix - 1) as u8 } else { b'A' + (radix - 11) as u8 };
    v.push(top | 0x80);
    v.push((top | 0x20) | 0x80);
    let mut seen = std::collections::HashSet::new();
    v.retain(|c| seen.insert(*c));
    v
}

/// the single symbol whose digit value equals the radix (see `boundary_bytes`)
pub fn radix_symbol(radix: u32) -> u8 {
    if radix < 10 { b'0' + radix as u8 } else if radix == 10 { b':' } else if radix < 36 { b'A' + (radix - 10) as u8 } else { b'[' }
}

pub fn pick(i: u16, len: usize) -> usize {
    ((i as usize) * len) >> 16
}

// ---------------------------------------------------------------------------------------------
// float bit patterns

/// Finite magnitudes (no sign) with structure.
pub fn finite_mag(k: FloatKind) -> BoxedStrategy<u64> {
    let p = k.p;
    let max_e = k.max_exp_field() - 1; // largest finite exponent field
    let mant_bits = p - 1;
    let mant_mask = k.mant_mask();
    let structured_mant = prop_oneof![
        Just(0u64),
        Just(1u64),
        Just(2u64),
        Just(mant_mask),
        Just(mant_mask - 1),
        (0..mant_bits).prop_map(|b| 1u64 << b),
        (0..mant_bits, any::<u64>()).prop_map(move |(tz, r)| ((r & mant_mask) >> tz) << tz),
        (1..mant_bits, any::<u64>()).prop_map(move |(hb, r)| r & ((1u64 << hb) - 1)),
        any::<u64>().prop_map(move |r| r & mant_mask),
    ];
    let uniform = any::<u64>().prop_map(move |r| r % (k.inf_bits()));
    let exp_x_mant = (0..=max_e, structured_mant.clone()).prop_map(move |(e, m)| (e << mant_bits) | m);
    let subnormal = structured_mant.clone().prop_map(move |m| m);
    let edges = prop_oneof![
        Just(0u64),
        Just(1u64),
        Just(k.max_finite_bits()),
        Just(1u64 << mant_bits), // min positive normal
        Just((1u64 << mant_bits) - 1),
    ];
    let near_pow2 = (1..=max_e, 0u64..3).prop_map(move |(e, d)| ((e << mant_bits) + 1).saturating_sub(d).min(k.max_finite_bits()));
    prop_oneof![
        3 => uniform,
        5 => exp_x_mant,
        1 => subnormal,
        1 => edges,
        1 => near_pow2,
    ]
    .boxed()
}

/// Finite floats with sign bit.
pub fn finite_bits(k: FloatKind) -> BoxedStrategy<u64> {
    (finite_mag(k), any::<bool>()).prop_map(move |(m, s)| if s { m | k.sign_mask() } else { m }).boxed()
}

// ---------------------------------------------------------------------------------------------
// number text in canonical form: value = int(sig) * base^eb

#[derive(Clone, Debug, PartialEq, Eq)]
pub struct Canon {
    pub neg: bool,
    /// significant digit values, most significant first (may have leading zeros; may be empty = 0)
    pub sig: Vec<u8>,
    /// exponent in units of the exponent base
    pub eb: i64,
}

#[derive(Clone, Debug)]
pub struct Layout {
    /// point position choice 0..=65535 mapped onto 0..=len (+ extremes), see `render_canon`
    pub point: u16,
    /// style: 0 = positional if feasible, 1 = scientific (point after first digit), 2 = integer
    /// with exponent, 3 = point at `point`
    pub style: u8,
    pub lead_zeros: u16,
    pub trail_zeros: u16,
    pub exp_lead_zeros: u8,
    pub exp_plus: bool,
    pub plus: bool,
    pub upper_exp: bool,
    /// write "5." / ".5" forms when a side is empty instead of adding a "0"
    pub bare_point: bool,
    /// write letter digits in lower case
    pub lower_digits: bool,
}

pub fn layout() -> BoxedStrategy<Layout> {
    (
        any::<u16>(),
        0u8..4,
        prop_oneof![8 => Just(0u16), 3 => 0u16..4, 1 => 0u16..40, 1 => 300u16..420],
        prop_oneof![8 => Just(0u16), 3 => 0u16..4, 1 => 0u16..40, 1 => 300u16..420],
        prop_oneof![6 => Just(0u8), 2 => 0u8..4, 1 => 20u8..30],
        any::<bool>(),
        prop_oneof![4 => Just(false), 1 => Just(true)],
        any::<bool>(),
        (any::<bool>(), prop_oneof![3 => Just(false), 1 => Just(true)]),
    )
        .prop_map(|(point, style, lead_zeros, trail_zeros, exp_lead_zeros, exp_plus, plus, upper_exp, (bare_point, lower_digits))| Layout {
            point,
            style,
            lead_zeros,
            trail_zeros,
            exp_lead_zeros,
            exp_plus,
            plus,
            upper_exp,
            bare_point,
            lower_digits,
        })
        .boxed()
}

fn push_digits(out: &mut Vec<u8>, d: &[u8]) {
    out.extend(d.iter().map(|&x| digit_char(x)));
}

fn push_int(out: &mut Vec<u8>, mut v: u64, radix: u32) {
    let mut tmp = Vec::new();
    if v == 0 {
        tmp.push(0u8);
    }
    while v > 0 {
        tmp.push((v % radix as u64) as u8);
        v /= radix as u64;
    }
    tmp.reverse();
    push_digits(out, &tmp);
}

/// Render a canonical number as text. `exp_char` must not be a digit of the radix.
pub fn render_canon(c: &Canon, rx: Radices, point: u8, exp_char: u8, l: &Layout) -> Vec<u8> {
    let k = rx.digits_per_base().unwrap() as i64;
    let len = c.sig.len() as i64;
    // choose point position p (number of sig digits before the point); may lie outside 0..=len
    let mut p: i64 = match l.style {
        0 => {
            // positional if eb divisible by k and the padding is reasonable
            if c.eb % k == 0 {
                let p = len + c.eb / k;
                if p >= -1200 && p <= len + 1200 {
                    p
                } else {
                    1.min(len)
                }
            } else {
                1.min(len)
            }
        },
        1 => 1.min(len),
        2 => len,
        _ => pick(l.point, (len + 1) as usize) as i64,
    };
    if l.style == 0 && !(c.eb % k == 0) {
        p = 1.min(len);
    }
    // explicit exponent so that value is preserved: int(sig)*base^eb = (sig with point at p) * base^e
    // sig with point at p = int(sig) * r^-(len-p) = int(sig) * base^(-k(len-p))
    let e: i64 = c.eb + k * (len - p);
    let mut out = Vec::new();
    if c.neg {
        out.push(b'-');
    } else if l.plus {
        out.push(b'+');
    }
    // integer part
    let mut int: Vec<u8> = Vec::new();
    let mut frac: Vec<u8> = Vec::new();
    if p <= 0 {
        frac.extend(std::iter::repeat(0u8).take((-p) as usize));
        frac.extend_from_slice(&c.sig);
    } else if p >= len {
        int.extend_from_slice(&c.sig);
        int.extend(std::iter::repeat(0u8).take((p - len) as usize));
    } else {
        int.extend_from_slice(&c.sig[..p as usize]);
        frac.extend_from_slice(&c.sig[p as usize..]);
    }
    for _ in 0..l.lead_zeros {
        out.push(b'0');
    }
    if int.is_empty() && (!l.bare_point || frac.is_empty()) && l.lead_zeros == 0 {
        out.push(b'0');
    }
    push_digits(&mut out, &int);
    let need_point = !frac.is_empty() || l.trail_zeros > 0 || (l.bare_point && l.style == 3);
    if need_point {
        out.push(point);
        push_digits(&mut out, &frac);
        for _ in 0..l.trail_zeros {
            out.push(b'0');
        }
        if frac.is_empty() && l.trail_zeros == 0 && !l.bare_point {
            out.push(b'0');
        }
    }
    if l.lower_digits {
        for b in out.iter_mut() {
            if b.is_ascii_uppercase() && *b != point {
                *b = b.to_ascii_lowercase();
            }
        }
    }
    if e != 0 || l.style == 1 || l.style == 2 {
        out.push(if l.upper_exp { exp_char.to_ascii_uppercase() } else { exp_char.to_ascii_lowercase() });
        if e < 0 {
            out.push(b'-');
        } else if l.exp_plus {
            out.push(b'+');
        }
        for _ in 0..l.exp_lead_zeros {
            out.push(b'0');
        }
        push_int(&mut out, e.unsigned_abs(), rx.exp);
    }
    out
}

/// Exact expansion of the midpoint between finite magnitude `bits` and its successor, in the
/// mantissa radix. For odd radices and negative binary exponents the expansion is infinite and
/// is truncated to `odd_digits` fractional digits (flag returned).
pub fn midpoint_canon(k: FloatKind, rx: Radices, bits: u64, odd_digits: u32) -> (Canon, bool) {
    let (m, q) = k.decode(bits);
    let two_m_1 = Big::from_u128(2 * m as u128 + 1);
    let q1 = q - 1;
    let kk = rx.digits_per_base().unwrap() as i64;
    if q1 >= 0 {
        let n = two_m_1.shl(q1 as u64);
        return (Canon { neg: false, sig: n.to_digits(rx.mant), eb: 0 }, true);
    }
    let k2 = (-q1) as u64;
    let r = rx.mant;
    let a = r.trailing_zeros() as u64;
    if a > 0 {
        let c = (r >> a) as u64;
        let n = (k2 + a - 1) / a;
        let mut v = two_m_1.shl(a * n - k2);
        if c > 1 {
            v = v.mul(&Big::pow(c, n));
        }
        (Canon { neg: false, sig: v.to_digits(r), eb: -(kk * n as i64) }, true)
    } else {
        let n = odd_digits as u64;
        let v = two_m_1.mul(&Big::pow(r as u64, n)).shr(k2);
        (Canon { neg: false, sig: v.to_digits(r), eb: -(kk * n as i64) }, false)
    }
}

/// Exact expansion of the float value itself (same conventions).
pub fn value_canon(k: FloatKind, rx: Radices, bits: u64, odd_digits: u32) -> (Canon, bool) {
    let (m, q) = k.decode(bits);
    let mb = Big::from_u64(m);
    let kk = rx.digits_per_base().unwrap() as i64;
    if q >= 0 {
        return (Canon { neg: false, sig: mb.shl(q as u64).to_digits(rx.mant), eb: 0 }, true);
    }
    let k2 = (-q) as u64;
    let r = rx.mant;
    let a = r.trailing_zeros() as u64;
    if a > 0 {
        let c = (r >> a) as u64;
        let n = (k2 + a - 1) / a;
        let mut v = mb.shl(a * n - k2);
        if c > 1 {
            v = v.mul(&Big::pow(c, n));
        }
        (Canon { neg: false, sig: v.to_digits(r), eb: -(kk * n as i64) }, true)
    } else {
        let n = odd_digits as u64;
        let v = mb.mul(&Big::pow(r as u64, n)).shr(k2);
        (Canon { neg: false, sig: v.to_digits(r), eb: -(kk * n as i64) }, false)
    }
}

#[derive(Clone, Debug)]
pub enum Perturb {
    Exact,
    /// keep the first t digits (t chosen from the interesting set by index)
    Truncate(u16),
    /// truncate then add one unit in the last kept place
    TruncateUp(u16),
    /// append zeros then a final 1
    Above(u8),
    /// subtract one in the last place, then append (r-1) digits
    Below(u8),
    /// append zeros only (value unchanged)
    TrailingZeros(u8),
}

pub fn perturb() -> BoxedStrategy<Perturb> {
    prop_oneof![
        2 => Just(Perturb::Exact),
        3 => any::<u16>().prop_map(Perturb::Truncate),
        2 => any::<u16>().prop_map(Perturb::TruncateUp),
        2 => (0u8..40).prop_map(Perturb::Above),
        2 => (0u8..40).prop_map(Perturb::Below),
        1 => (0u8..40).prop_map(Perturb::TrailingZeros),
    ]
    .boxed()
}

/// Interesting truncation lengths for a digit string of length `len` in radix `r`.
pub fn trunc_lengths(len: usize, r: u32) -> Vec<usize> {
    // digits that fit in a u64
    let mut step = 0usize;
    let mut p = 1u64;
    while p.checked_mul(r as u64).is_some() {
        p *= r as u64;
        step += 1;
    }
    let mut v: Vec<usize> = Vec::new();
    for d in [1usize, 2, 3, 5, 8, 9, 15, 16, 17, 18, 19, 20, 21, 22, 25, 30, 40, 64, 100, 200, 400, 700, 766, 767, 768, 769, 770, 771, 800, 1000] {
        v.push(d);
    }
    for d in step.saturating_sub(2)..=step + 3 {
        v.push(d);
    }
    for d in (2 * step).saturating_sub(1)..=2 * step + 1 {
        v.push(d);
    }
    v.retain(|&d| d >= 1 && d < len);
    v.sort();
    v.dedup();
    if v.is_empty() {
        v.push(len.max(1));
    }
    v
}

fn incr_digits(sig: &mut Vec<u8>, radix: u32) {
    let mut i = sig.len();
    loop {
        if i == 0 {
            sig.insert(0, 1);
            return;
        }
        i -= 1;
        if (sig[i] as u32) + 1 < radix {
            sig[i] += 1;
            return;
        }
        sig[i] = 0;
    }
}

fn decr_digits(sig: &mut Vec<u8>, radix: u32) -> bool {
    // returns false if the value was zero
    if sig.iter().all(|&d| d == 0) {
        return false;
    }
    let mut i = sig.len();
    loop {
        i -= 1;
        if sig[i] > 0 {
            sig[i] -= 1;
            return true;
        }
        sig[i] = (radix - 1) as u8;
    }
}

pub fn apply_perturb(c: &Canon, rx: Radices, p: &Perturb) -> Canon {
    let k = rx.digits_per_base().unwrap() as i64;
    let mut out = c.clone();
    match p {
        Perturb::Exact => {},
        Perturb::Truncate(i) | Perturb::TruncateUp(i) => {
            let lens = trunc_lengths(c.sig.len(), rx.mant);
            let t = lens[pick(*i, lens.len())].min(c.sig.len());
            let dropped = (c.sig.len() - t) as i64;
            out.sig.truncate(t);
            out.eb += k * dropped;
            if let Perturb::TruncateUp(_) = p {
                incr_digits(&mut out.sig, rx.mant);
            }
        },
        Perturb::Above(z) => {
            for _ in 0..*z {
                out.sig.push(0);
            }
            out.sig.push(1);
            out.eb -= k * (*z as i64 + 1);
        },
        Perturb::Below(z) => {
            if decr_digits(&mut out.sig, rx.mant) {
                for _ in 0..=*z {
                    out.sig.push((rx.mant - 1) as u8);
                }
                out.eb -= k * (*z as i64 + 1);
            }
        },
        Perturb::TrailingZeros(z) => {
            for _ in 0..*z {
                out.sig.push(0);
            }
            out.eb -= k * (*z as i64);
        },
    }
    out
}

/// Midpoint-derived strings: within r^-k of a rounding boundary of `k`.
pub fn midpoint_text(k: FloatKind, rx: Radices, point: u8, exp_char: u8) -> BoxedStrategy<(Vec<u8>, &'static str)> {
    (finite_mag(k), perturb(), layout(), any::<bool>(), prop_oneof![Just(40u32), Just(120u32), Just(400u32)])
        .prop_map(move |(bits, pt, lay, neg, odd_digits)| {
            let bits = bits.min(k.max_finite_bits());
            let (mut c, _) = midpoint_canon(k, rx, bits, odd_digits);
            c = apply_perturb(&c, rx, &pt);
            c.neg = neg;
            let class = match pt {
                Perturb::Exact => "midpoint-exact",
                Perturb::Truncate(_) => "midpoint-truncated",
                Perturb::TruncateUp(_) => "midpoint-truncated-up",
                Perturb::Above(_) => "midpoint-above",
                Perturb::Below(_) => "midpoint-below",
                Perturb::TrailingZeros(_) => "midpoint-trailing-zeros",
            };
            (render_canon(&c, rx, point, exp_char, &lay), class)
        })
        .boxed()
}

/// Exact expansions of floats themselves, truncated/perturbed (exercise representable values
/// with many digits: must round to themselves or neighbours decided exactly).
pub fn value_text(k: FloatKind, rx: Radices, point: u8, exp_char: u8) -> BoxedStrategy<(Vec<u8>, &'static str)> {
    (finite_mag(k), perturb(), layout(), any::<bool>())
        .prop_map(move |(bits, pt, lay, neg)| {
            let bits = bits.min(k.max_finite_bits());
            let (mut c, _) = value_canon(k, rx, bits, 120);
            c = apply_perturb(&c, rx, &pt);
            c.neg = neg;
            (render_canon(&c, rx, point, exp_char, &lay), "float-expansion")
        })
        .boxed()
}

fn digits_vec(radix: u32, max_len: usize) -> BoxedStrategy<Vec<u8>> {
    let r = radix as u8;
    prop_oneof![
        6 => proptest::collection::vec(0u8..r, 0..=max_len.min(25)),
        2 => proptest::collection::vec(0u8..r, 0..=max_len.min(60)),
        1 => proptest::collection::vec(0u8..r, 0..=max_len),
        1 => proptest::collection::vec(Just(r - 1), 1..=max_len.min(40)),
    ]
    .boxed()
}

/// Exponent magnitudes as digit vectors in the exponent radix (may exceed i64).
fn exp_digits(radix: u32) -> BoxedStrategy<Vec<u8>> {
    let r = radix as u8;
    prop_oneof![
        6 => proptest::collection::vec(0u8..r, 1..=2),
        4 => proptest::collection::vec(0u8..r, 1..=4),
        1 => proptest::collection::vec(0u8..r, 5..=12),
        1 => proptest::collection::vec(0u8..r, 19..=45),
        // exponents around the widths the parser stores them in (i32 / i64 limits, the 0x1000
        // guard of the moderate path), within a few hundred of the limit
        1 => (0usize..10, -400i128..=400).prop_map(move |(b, d)| {
            let base: i128 = [0x1000, 0x7fff, 0xffff, i32::MAX as i128, 1i128 << 31, 1i128 << 32, i64::MAX as i128, 1i128 << 63, 1i128 << 64, 0x7fff_ffff - 350][b];
            Big::from_u128((base + d).max(0) as u128).to_digits(radix)
        }),
    ]
    .boxed()
}

/// Grammar-based random number text: [+-] digits [. digits] [e [+-] digits]
pub fn grammar_text(rx: Radices, point: u8, exp_char: u8) -> BoxedStrategy<(Vec<u8>, &'static str)> {
    (
        prop_oneof![3 => Just(0u8), 2 => Just(1u8), 1 => Just(2u8)],
        prop_oneof![8 => Just(0usize), 2 => 1usize..4, 1 => 100usize..420],
        digits_vec(rx.mant, 800),
        any::<bool>(),
        prop_oneof![4 => Just(0usize), 2 => 1usize..6, 1 => 100usize..420],
        digits_vec(rx.mant, 2000),
        prop_oneof![1 => Just(0u8), 1 => Just(1u8), 1 => Just(2u8), 1 => Just(3u8)],
        exp_digits(rx.exp),
        any::<bool>(),
        0u8..3,
    )
        .prop_map(move |(sign, lz, int, has_point, fz, frac, exp_kind, ed, upper, exp_lz)| {
            let mut out = Vec::new();
            match sign {
                1 => out.push(b'-'),
                2 => out.push(b'+'),
                _ => {},
            }
            out.extend(std::iter::repeat(b'0').take(lz));
            push_digits(&mut out, &int);
            let mut any_digit = lz > 0 || !int.is_empty();
            if has_point {
                out.push(point);
                out.extend(std::iter::repeat(b'0').take(fz));
                push_digits(&mut out, &frac);
                any_digit |= fz > 0 || !frac.is_empty();
            }
            if !any_digit {
                // keep the string inside the grammar: at least one mantissa digit
                out.push(b'0');
            }
            if exp_kind > 0 {
                out.push(if upper { exp_char.to_ascii_uppercase() } else { exp_char.to_ascii_lowercase() });
                match exp_kind {
                    2 => out.push(b'-'),
                    3 => out.push(b'+'),
                    _ => {},
                }
                out.extend(std::iter::repeat(b'0').take(exp_lz as usize));
                push_digits(&mut out, &ed);
            }
            (out, "grammar")
        })
        .boxed()
}

/// Short decimal-like inputs d * base^e that native arithmetic decides (fast-path region and
/// its edges), for any radix.
pub fn fastpath_text(k: FloatKind, rx: Radices, point: u8, exp_char: u8) -> BoxedStrategy<(Vec<u8>, &'static str)> {
    let mant_lim = 1u64 << k.p;
    // exponent range wide enough to straddle the exact-power limits for every radix
    let erange: i64 = if k.p == 53 { 60 } else { 30 };
    (
        prop_oneof![
            3 => 0u64..1000,
            3 => any::<u64>().prop_map(move |x| x % (mant_lim + 4)),
            2 => (0u64..8).prop_map(move |d| mant_lim + 4 - d),
            1 => any::<u64>(),
        ],
        -erange..=erange,
        layout(),
        any::<bool>(),
    )
        .prop_map(move |(m, e, lay, neg)| {
            let sig = Big::from_u64(m).to_digits(rx.mant);
            let c = Canon { neg, sig, eb: e * rx.digits_per_base().unwrap() as i64 };
            (render_canon(&c, rx, point, exp_char, &lay), "fast-path-region")
        })
        .boxed()
}

/// Strings around the overflow / underflow thresholds of kind `k`.
pub fn range_edge_text(k: FloatKind, rx: Radices, point: u8, exp_char: u8) -> BoxedStrategy<(Vec<u8>, &'static str)> {
    (prop_oneof![Just(0u64), Just(1u64), Just(2u64), Just(k.max_finite_bits()), Just(k.max_finite_bits() - 1)], perturb(), layout(), any::<bool>(), any::<bool>())
        .prop_map(move |(bits, pt, lay, neg, use_mid)| {
            let (mut c, _) = if use_mid { midpoint_canon(k, rx, bits, 400) } else { value_canon(k, rx, bits.max(1), 400) };
            c = apply_perturb(&c, rx, &pt);
            c.neg = neg;
            (render_canon(&c, rx, point, exp_char, &lay), "range-edge")
        })
        .boxed()
}

/// Values spread through the binades just inside and beyond the finite range: magnitudes in
/// [2^(emax-1), 2^(emax+5)) (most of them overflow: the exact answer is an infinity, never NaN)
/// and magnitudes up to 2^6 times below the smallest subnormal (the exact answer is a signed zero or
/// the smallest subnormal), written with few or many digits.
pub fn beyond_range_text(k: FloatKind, rx: Radices, point: u8, exp_char: u8) -> BoxedStrategy<(Vec<u8>, &'static str)> {
    let dpb = rx.digits_per_base().unwrap() as i64;
    let emax1 = (k.max_exp_field() as i64 - 1) - k.bias() + 1; // 2^emax1 is the first power of two out of range
    // mostly within a few binades of the range ends, sometimes up to 80 binades beyond them (a shift count or a
    // table index that is only wrong for one binade far outside the range: seeded change C10-I)
    (any::<u64>(), prop_oneof![4 => -2i64..5, 1 => 5i64..80], prop_oneof![3 => 1usize..6, 3 => 6usize..25, 1 => 25usize..80, 1 => Just(10_000usize)], layout(), any::<bool>(), prop_oneof![3 => Just(false), 1 => Just(true)], prop_oneof![2 => 1i64..7, 3 => 7i64..80])
        .prop_map(move |(m, j, keep, lay, neg, under, down)| {
            if under {
                // the smallest subnormals, or a small multiple of the smallest one (so that, together with the
                // scale below, every binade down to about 2^-260 below the range is reached)
                let sub = if m & 4 == 0 { 1 + (m % 3) } else { 1 + ((m >> 8) % 4096) };
                let (mut c, _) = value_canon(k, rx, sub, 400);
                c.eb -= down;
                c.neg = neg;
                return (render_canon(&c, rx, point, exp_char, &lay), "below-subnormal");
            }
            // integer m' * 2^sh with bit length emax1 + j + 1
            let m = m | (1 << 63);
            let v = Big::from_u64(m).shl((emax1 + j + 1 - 64) as u64);
            let digits = v.to_digits(rx.mant);
            let n = keep.min(digits.len()).max(1);
            let mut sig = digits[..n].to_vec();
            if n < digits.len() && m & 1 == 1 {
                // round the kept prefix up now and then so that the text is not always a truncation
                let mut i = n;
                while i > 0 {
                    if (sig[i - 1] as u32) + 1 < rx.mant {
                        sig[i - 1] += 1;
                        break;
                    }
                    sig[i - 1] = 0;
                    i -= 1;
                }
                if i == 0 {
                    sig.insert(0, 1);
                }
            }
            let c = Canon { neg, sig, eb: (digits.len() - n) as i64 * dpb };
            (render_canon(&c, rx, point, exp_char, &lay), "beyond-range")
        })
        .boxed()
}

/// A number text with a significand of about `sig_bits` bits whose value lies in (or, for very short significands,
/// next to) the binade of `m * 2^e2` (m a 53-bit style
/// mantissa, e2 any binary exponent, also far outside the float range): digits in the mantissa radix, scaled by a
/// power of the exponent base written in the exponent radix. Used for binade sweeps (every binade from hundreds
/// below the smallest subnormal to hundreds above the largest finite value).
pub fn binade_text(rx: Radices, m: u64, e2: i64, point: u8, exp_char: u8, neg: bool, sig_bits: u32) -> Vec<u8> {
    let b = rx.base as u64;
    let log2b = (rx.base as f64).log2();
    // value = D * b^(-t): choose t so that D has about `sig_bits` bits (few bits = one or two digits: short
    // mantissas take other paths than long ones, e.g. the early exits on the decimal exponent)
    let bl = 64 - m.max(1).leading_zeros() as i64;
    let t: i64 = (((sig_bits.max(2) as i64 - bl - e2) as f64) / log2b).ceil() as i64;
    let d = if t >= 0 {
        let n = Big::from_u64(m.max(1)).mul(&Big::pow(b, t as u64));
        if e2 >= 0 { n.shl(e2 as u64) } else { n.shr((-e2) as u64) }
    } else {
        // large values: divide by b^(-t)
        let mut n = Big::from_u64(m.max(1)).shl(e2.max(0) as u64);
        for _ in 0..(-t) {
            n.divrem_small(b);
        }
        n
    };
    let mut digits = d.to_digits(rx.mant);
    if digits.is_empty() {
        digits.push(1);
    }
    let mut out = Vec::new();
    if neg {
        out.push(b'-');
    }
    push_digits(&mut out, &digits[..1]);
    out.push(point);
    push_digits(&mut out, &digits[1..]);
    // value = 0.d1d2.. style shift: D = d0.d1.. * r^(len-1); for mixed radices only whole powers of the base can be
    // expressed, so the point shift is folded into the exponent when mantissa radix == base, else the digits stay
    // an integer
    let dpb = rx.digits_per_base();
    let mut e = -t;
    if rx.mant == rx.base {
        e += digits.len() as i64 - 1;
    } else {
        // keep D an integer: drop the point again
        out.clear();
        if neg {
            out.push(b'-');
        }
        push_digits(&mut out, &digits);
        let _ = dpb;
    }
    out.push(exp_char);
    if e < 0 {
        out.push(b'-');
    }
    let ed = Big::from_u128(e.unsigned_abs() as u128).to_digits(rx.exp);
    if ed.is_empty() {
        out.push(b'0');
    }
    push_digits(&mut out, &ed);
    out
}

/// Near-halfway inputs whose digit string, read as an integer, has whole low 64-bit limbs of
/// zeros: `D * base^e` with `D = floor(M / base^e)` rounded down (or up) to a multiple of 2^z,
/// z a multiple of 64, M the midpoint above a large float. The relative distance to the halfway
/// point is below 2^-66, so the slow (big-integer) path decides, and its multiplications see
/// operands with zero limbs.
pub fn limb_aligned_text(k: FloatKind, rx: Radices, point: u8, exp_char: u8) -> BoxedStrategy<(Vec<u8>, &'static str)> {
    let dpb = rx.digits_per_base().unwrap() as i64;
    let min_q = 70i64;
    (finite_mag(k), 0u32..330, 1u64..9, any::<bool>(), any::<bool>(), layout())
        .prop_map(move |(bits, e_want, zl, up, neg, lay)| {
            // midpoints that are integers with room for a zero limb
            let (m, q) = k.decode(bits.max(1));
            let q = q.max(min_q);
            let mid = Big::from_u128(2 * m as u128 + 1).shl((q - 1) as u64);
            // divide by mant^e while at least 130 bits remain
            let mut d = mid.clone();
            let mut e = 0i64;
            while (e as u32) < e_want {
                let mut t = d.clone();
                t.divrem_small(rx.mant as u64);
                if t.bit_len() < 130 {
                    break;
                }
                d = t;
                e += 1;
            }
            let z = (zl * 64).min((d.bit_len().saturating_sub(66) / 64) * 64);
            let mut dd = d.shr(z).shl(z);
            if up {
                dd = dd.add(&Big::from_u64(1).shl(z));
            }
            let c = Canon { neg, sig: dd.to_digits(rx.mant), eb: e * dpb };
            // keep the digits together: integer digits followed by the exponent (layout style 2)
            let mut lay = lay;
            lay.style = 2;
            lay.lead_zeros = 0;
            lay.trail_zeros = 0;
            (render_canon(&c, rx, point, exp_char, &lay), "limb-aligned")
        })
        .boxed()
}

// ---------------------------------------------------------------------------------------------
// integers (erased: two's complement, sign-extended to 128 bits)

/// truncate/sign-extend `x` to a `bits`-wide integer stored in u128
pub fn wrap_int(x: u128, bits: u32, signed: bool) -> u128 {
    if bits == 128 {
        return x;
    }
    let mask = (1u128 << bits) - 1;
    let v = x & mask;
    if signed && (v >> (bits - 1)) & 1 == 1 {
        v | !mask
    } else {
        v
    }
}

pub fn int_min(bits: u32, signed: bool) -> u128 {
    if signed {
        wrap_int(1u128 << (bits - 1), bits, true)
    } else {
        0
    }
}
pub fn int_max(bits: u32, signed: bool) -> u128 {
    if signed {
        (1u128 << (bits - 1)) - 1
    } else if bits == 128 {
        u128::MAX
    } else {
        (1u128 << bits) - 1
    }
}

/// Integer values with structure relevant to digit counting and chunked writing in `radix`.
pub fn int_value(bits: u32, signed: bool, radix: u32) -> BoxedStrategy<u128> {
    let r = radix as u128;
    // digits that fit in u64 for this radix
    let mut step = 0u32;
    let mut p = 1u64;
    while p.checked_mul(radix as u64).is_some() {
        p *= radix as u64;
        step += 1;
    }
    let rs = p as u128; // r^step
    let uniform = any::<u128>();
    let log_uniform = (0u32..=bits, any::<u128>()).prop_map(move |(b, x)| if b == 0 { 0 } else if b == 128 { x } else { (x & ((1u128 << b) - 1)) | (1u128 << (b - 1)) });
    let pow_edges = (0u32..130, 0u8..3).prop_map(move |(k, d)| {
        let mut v: u128 = 1;
        for _ in 0..k {
            v = match v.checked_mul(r) {
                Some(x) => x,
                None => break,
            };
        }
        match d {
            0 => v.wrapping_sub(1),
            1 => v,
            _ => v.wrapping_add(1),
        }
    });
    let chunk = move || prop_oneof![Just(0u128), Just(1u128), Just(rs - 1), any::<u64>().prop_map(move |x| (x as u128) % rs)];
    let products = (chunk(), chunk(), chunk()).prop_map(move |(hi, mid, lo)| hi.wrapping_mul(rs).wrapping_mul(rs).wrapping_add(mid.wrapping_mul(rs)).wrapping_add(lo));
    // binary boundaries in every radix (word splits, fast-path bounds of the 128-bit division): 2^k + d, and a
    // quotient of exactly 2^64 (+-1) in front of one chunk of digits
    let bin_edges = (0u32..128, -40i32..=40).prop_map(|(k, d)| (1u128 << k).wrapping_add(d as i128 as u128));
    let word_quotient = (prop_oneof![Just((1u128 << 64) - 1), Just(1u128 << 64), Just((1u128 << 64) + 1)], chunk()).prop_map(move |(q, lo)| q.wrapping_mul(rs).wrapping_add(lo));
    let edges = prop_oneof![
        Just(int_min(bits, signed)),
        Just(int_min(bits, signed).wrapping_add(1)),
        Just(u128::MAX), // -1 for signed, MAX for unsigned 128
        Just(0u128),
        Just(1u128),
        Just(int_max(bits, signed)),
        Just(int_max(bits, signed).wrapping_sub(1)),
    ];
    (prop_oneof![3 => uniform, 4 => log_uniform, 3 => pow_edges, 2 => products, 2 => bin_edges, 1 => word_quotient, 1 => edges], any::<bool>())
        .prop_map(move |(v, neg)| {
            let v = if signed && neg { v.wrapping_neg() } else { v };
            wrap_int(v, bits, signed)
        })
        .boxed()
}

/// Reference numeral of an erased integer: '-' for negatives, optional '+', digits 0-9A-Z.
pub fn ref_numeral(v: u128, bits: u32, signed: bool, radix: u32, plus: bool) -> Vec<u8> {
    let v = wrap_int(v, bits, signed);
    let neg = signed && (v >> 127) & 1 == 1;
    let mut mag: u128 = if neg { v.wrapping_neg() } else { v };
    let mut digits = Vec::new();
    if mag == 0 {
        digits.push(b'0');
    }
    while mag > 0 {
        digits.push(digit_char((mag % radix as u128) as u8));
        mag /= radix as u128;
    }
    let mut out = Vec::new();
    if neg {
        out.push(b'-');
    } else if plus {
        out.push(b'+');
    }
    digits.reverse();
    out.extend(digits);
    out
}
