//! Exact non-negative big integers. No dependency on lexical; no unsafe.
//! Little-endian `u64` limbs, always normalised (no high zero limbs).

use std::cmp::Ordering;

#[derive(Clone, Debug, PartialEq, Eq, Default)]
pub struct Big {
    pub limbs: Vec<u64>,
}

impl Big {
    pub fn zero() -> Big {
        Big { limbs: Vec::new() }
    }
    pub fn from_u64(x: u64) -> Big {
        if x == 0 {
            Big::zero()
        } else {
            Big { limbs: vec![x] }
        }
    }
    pub fn from_u128(x: u128) -> Big {
        let mut b = Big { limbs: vec![x as u64, (x >> 64) as u64] };
        b.norm();
        b
    }
    fn norm(&mut self) {
        while let Some(&0) = self.limbs.last() {
            self.limbs.pop();
        }
    }
    pub fn is_zero(&self) -> bool {
        self.limbs.is_empty()
    }
    pub fn bit_len(&self) -> u64 {
        match self.limbs.last() {
            None => 0,
            Some(&hi) => (self.limbs.len() as u64) * 64 - hi.leading_zeros() as u64,
        }
    }
    pub fn is_odd(&self) -> bool {
        self.limbs.first().map_or(false, |l| l & 1 == 1)
    }
    pub fn trailing_zeros(&self) -> u64 {
        let mut n = 0u64;
        for &l in &self.limbs {
            if l == 0 {
                n += 64;
            } else {
                return n + l.trailing_zeros() as u64;
            }
        }
        0
    }
    pub fn to_u64(&self) -> Option<u64> {
        match self.limbs.len() {
            0 => Some(0),
            1 => Some(self.limbs[0]),
            _ => None,
        }
    }
    pub fn to_u128(&self) -> Option<u128> {
        match self.limbs.len() {
            0 => Some(0),
            1 => Some(self.limbs[0] as u128),
            2 => Some(self.limbs[0] as u128 | ((self.limbs[1] as u128) << 64)),
            _ => None,
        }
    }
    pub fn cmp_big(&self, other: &Big) -> Ordering {
        if self.limbs.len() != other.limbs.len() {
            return self.limbs.len().cmp(&other.limbs.len());
        }
        for i in (0..self.limbs.len()).rev() {
            if self.limbs[i] != other.limbs[i] {
                return self.limbs[i].cmp(&other.limbs[i]);
            }
        }
        Ordering::Equal
    }
    pub fn add_small(&mut self, x: u64) {
        let mut carry = x;
        for l in self.limbs.iter_mut() {
            if carry == 0 {
                return;
            }
            let (s, c) = l.overflowing_add(carry);
            *l = s;
            carry = c as u64;
        }
        if carry != 0 {
            self.limbs.push(carry);
        }
    }
    pub fn mul_small(&mut self, x: u64) {
        if x == 0 {
            self.limbs.clear();
            return;
        }
        let mut carry = 0u128;
        for l in self.limbs.iter_mut() {
            let p = (*l as u128) * (x as u128) + carry;
            *l = p as u64;
            carry = p >> 64;
        }
        if carry != 0 {
            self.limbs.push(carry as u64);
        }
    }
    pub fn mul_small_new(&self, x: u64) -> Big {
        let mut r = self.clone();
        r.mul_small(x);
        r
    }
    /// Divide in place by a small value, returning the remainder.
    pub fn divrem_small(&mut self, d: u64) -> u64 {
        assert!(d != 0);
        let mut rem = 0u128;
        for l in self.limbs.iter_mut().rev() {
            let cur = (rem << 64) | (*l as u128);
            *l = (cur / d as u128) as u64;
            rem = cur % d as u128;
        }
        self.norm();
        rem as u64
    }
    pub fn add(&self, other: &Big) -> Big {
        let (a, b) = if self.limbs.len() >= other.limbs.len() { (self, other) } else { (other, self) };
        let mut out = Vec::with_capacity(a.limbs.len() + 1);
        let mut carry = 0u64;
        for i in 0..a.limbs.len() {
            let y = if i < b.limbs.len() { b.limbs[i] } else { 0 };
            let (s1, c1) = a.limbs[i].overflowing_add(y);
            let (s2, c2) = s1.overflowing_add(carry);
            out.push(s2);
            carry = (c1 as u64) + (c2 as u64);
        }
        if carry != 0 {
            out.push(carry);
        }
        Big { limbs: out }
    }
    /// self - other; panics if other > self.
    pub fn sub(&self, other: &Big) -> Big {
        assert!(self.cmp_big(other) != Ordering::Less, "Big::sub underflow");
        let mut out = Vec::with_capacity(self.limbs.len());
        let mut borrow = 0u64;
        for i in 0..self.limbs.len() {
            let y = if i < other.limbs.len() { other.limbs[i] } else { 0 };
            let (s1, b1) = self.limbs[i].overflowing_sub(y);
            let (s2, b2) = s1.overflowing_sub(borrow);
            out.push(s2);
            borrow = (b1 as u64) + (b2 as u64);
        }
        assert!(borrow == 0);
        let mut r = Big { limbs: out };
        r.norm();
        r
    }
    /// |self - other|
    pub fn abs_diff(&self, other: &Big) -> Big {
        if self.cmp_big(other) == Ordering::Less {
            other.sub(self)
        } else {
            self.sub(other)
        }
    }
    pub fn mul(&self, other: &Big) -> Big {
        if self.is_zero() || other.is_zero() {
            return Big::zero();
        }
        let mut out = vec![0u64; self.limbs.len() + other.limbs.len()];
        for (i, &a) in self.limbs.iter().enumerate() {
            if a == 0 {
                continue;
            }
            let mut carry = 0u128;
            for (j, &b) in other.limbs.iter().enumerate() {
                let cur = out[i + j] as u128 + (a as u128) * (b as u128) + carry;
                out[i + j] = cur as u64;
                carry = cur >> 64;
            }
            let mut k = i + other.limbs.len();
            while carry != 0 {
                let cur = out[k] as u128 + carry;
                out[k] = cur as u64;
                carry = cur >> 64;
                k += 1;
            }
        }
        let mut r = Big { limbs: out };
        r.norm();
        r
    }
    pub fn pow(base: u64, mut exp: u64) -> Big {
        let mut result = Big::from_u64(1);
        if exp == 0 {
            return result;
        }
        // small-step multiply while cheap, then square-and-multiply
        let mut b = Big::from_u64(base);
        loop {
            if exp & 1 == 1 {
                result = result.mul(&b);
            }
            exp >>= 1;
            if exp == 0 {
                break;
            }
            b = b.mul(&b);
        }
        result
    }
    pub fn shl(&self, bits: u64) -> Big {
        if self.is_zero() {
            return Big::zero();
        }
        let limbs = (bits / 64) as usize;
        let sh = (bits % 64) as u32;
        let mut out = vec![0u64; limbs];
        if sh == 0 {
            out.extend_from_slice(&self.limbs);
        } else {
            let mut carry = 0u64;
            for &l in &self.limbs {
                out.push((l << sh) | carry);
                carry = l >> (64 - sh);
            }
            if carry != 0 {
                out.push(carry);
            }
        }
        Big { limbs: out }
    }
    pub fn shr(&self, bits: u64) -> Big {
        let limbs = (bits / 64) as usize;
        if limbs >= self.limbs.len() {
            return Big::zero();
        }
        let sh = (bits % 64) as u32;
        let src = &self.limbs[limbs..];
        let mut out = Vec::with_capacity(src.len());
        if sh == 0 {
            out.extend_from_slice(src);
        } else {
            for i in 0..src.len() {
                let hi = if i + 1 < src.len() { src[i + 1] << (64 - sh) } else { 0 };
                out.push((src[i] >> sh) | hi);
            }
        }
        let mut r = Big { limbs: out };
        r.norm();
        r
    }
    /// true if any of the low `bits` bits is set
    pub fn low_bits_nonzero(&self, bits: u64) -> bool {
        let limbs = (bits / 64) as usize;
        for i in 0..limbs.min(self.limbs.len()) {
            if self.limbs[i] != 0 {
                return true;
            }
        }
        let sh = bits % 64;
        if sh != 0 && limbs < self.limbs.len() {
            return self.limbs[limbs] & ((1u64 << sh) - 1) != 0;
        }
        false
    }
    /// Value of a digit vector (most significant first) in `radix`.
    pub fn from_digits(digits: &[u8], radix: u32) -> Big {
        let radix = radix as u64;
        let mut step = 0usize;
        let mut p = 1u64;
        while p.checked_mul(radix).is_some() {
            p *= radix;
            step += 1;
        }
        let mut r = Big::zero();
        let mut i = 0;
        while i < digits.len() {
            let n = step.min(digits.len() - i);
            let mut chunk = 0u64;
            let mut scale = 1u64;
            for k in 0..n {
                debug_assert!((digits[i + k] as u64) < radix);
                chunk = chunk * radix + digits[i + k] as u64;
                scale *= radix;
            }
            r.mul_small(scale);
            r.add_small(chunk);
            i += n;
        }
        r
    }
    /// Digit vector (most significant first), empty for zero.
    pub fn to_digits(&self, radix: u32) -> Vec<u8> {
        let radix = radix as u64;
        let mut step = 0usize;
        let mut p = 1u64;
        while p.checked_mul(radix).is_some() {
            p *= radix;
            step += 1;
        }
        let mut v = self.clone();
        let mut out: Vec<u8> = Vec::new();
        while !v.is_zero() {
            let mut rem = v.divrem_small(p);
            let last = v.is_zero();
            for _ in 0..step {
                if last && rem == 0 {
                    break;
                }
                out.push((rem % radix) as u8);
                rem /= radix;
            }
        }
        out.reverse();
        out
    }
    pub fn to_decimal_string(&self) -> String {
        if self.is_zero() {
            return "0".into();
        }
        self.to_digits(10).iter().map(|d| (b'0' + d) as char).collect()
    }
    /// floor(self / den) assuming the quotient fits in 64 bits; returns (q, exact).
    /// Found by binary search on q with one small multiplication per step (no big division).
    pub fn div_small_quotient(&self, den: &Big) -> (u64, bool) {
        assert!(!den.is_zero());
        if self.cmp_big(den) == Ordering::Less {
            return (0, self.is_zero());
        }
        // quotient bit length estimate
        let mut lo = 0u64;
        let mut hi = u64::MAX;
        // narrow using bit lengths: q in [2^(d-1), 2^(d+1)) where d = bl(self)-bl(den)
        let d = self.bit_len() - den.bit_len();
        assert!(d <= 64, "quotient does not fit in 64 bits");
        if d >= 1 {
            lo = 1u64 << (d - 1);
        }
        if d + 1 < 64 {
            hi = (1u64 << (d + 1)) - 1;
        }
        // invariant: lo*den <= self, answer in [lo, hi]
        while lo < hi {
            let mid = lo + (hi - lo + 1) / 2;
            let prod = den.mul_small_new(mid);
            if prod.cmp_big(self) != Ordering::Greater {
                lo = mid;
            } else {
                hi = mid - 1;
            }
        }
        let prod = den.mul_small_new(lo);
        (lo, prod.cmp_big(self) == Ordering::Equal)
    }
}

impl PartialOrd for Big {
    fn partial_cmp(&self, other: &Big) -> Option<Ordering> {
        Some(self.cmp_big(other))
    }
}
impl Ord for Big {
    fn cmp(&self, other: &Big) -> Ordering {
        self.cmp_big(other)
    }
}

/// Compare a/b with c/d (all non-negative, b,d > 0) exactly.
pub fn cmp_frac(a: &Big, b: &Big, c: &Big, d: &Big) -> Ordering {
    a.mul(d).cmp_big(&c.mul(b))
}

#[cfg(test)]
mod tests {
    use super::*;
    #[test]
    fn basic() {
        let a = Big::pow(10, 40);
        assert_eq!(a.to_decimal_string(), format!("1{}", "0".repeat(40)));
        let b = Big::from_digits(&[1, 2, 3, 4, 5, 6, 7, 8, 9, 0, 1, 2, 3, 4, 5, 6, 7, 8, 9, 0, 1, 2, 3], 10);
        assert_eq!(b.to_decimal_string(), "12345678901234567890123");
        assert_eq!(b.to_u128(), Some(12345678901234567890123u128));
        let c = a.sub(&b).add(&b);
        assert_eq!(c, a);
        assert_eq!(a.shl(77).shr(77), a);
        let (q, exact) = Big::from_u128(1u128 << 100).div_small_quotient(&Big::from_u128(1u128 << 50));
        assert_eq!((q, exact), (1u64 << 50, true));
        let (q, exact) = Big::from_u128(1000003).div_small_quotient(&Big::from_u64(1000));
        assert_eq!((q, exact), (1000, false));
    }
}
