//! Supervisor for checks whose monitor is "the process must not die": the work is done in worker
//! subprocesses that record each case in a shared mapping before running it. A worker killed by
//! a signal (guard-page fault, abort) becomes a violation carrying the recorded case; a worker
//! that makes no progress for 20 s is reported as an infrastructure problem (exit 2).

use serde_json::{json, Value};
use std::process::{Command, Stdio};
use std::time::{Duration, Instant};
use vcore::guardbuf::Progress;
use vcore::report::*;

pub struct WorkerArgs {
    pub property: String,
    pub chunk: usize,
    pub nchunks: usize,
    pub skip: u64,
    pub shm: String,
    pub out: String,
}

pub fn parse_worker_args(args: &[String]) -> WorkerArgs {
    let get = |k: &str| args.iter().position(|a| a == k).and_then(|i| args.get(i + 1)).cloned().unwrap_or_default();
    WorkerArgs {
        property: args.get(2).cloned().unwrap_or_default(),
        chunk: get("--chunk").parse().unwrap_or(0),
        nchunks: get("--nchunks").parse().unwrap_or(1),
        skip: get("--skip").parse().unwrap_or(0),
        shm: get("--shm"),
        out: get("--out"),
    }
}

pub enum WorkerEnd {
    Done(Value),
    Crashed { signal: i32, fields: [u32; 6], payload: Vec<u8>, counter: u64 },
    Hung { fields: [u32; 6], payload: Vec<u8> },
    Infra(String),
}

fn run_one_worker(property: &str, chunk: usize, nchunks: usize, skip: u64, tag: &str) -> WorkerEnd {
    let dir = std::env::var("VERIF_SHM_DIR").unwrap_or_else(|_| "/dev/shm".into());
    let pid = std::process::id();
    let shm = format!("{dir}/verif-{property}-{tag}-{pid}-{chunk}.shm");
    let out = format!("{dir}/verif-{property}-{tag}-{pid}-{chunk}.json");
    let _ = std::fs::remove_file(&out);
    let progress = Progress::open(&shm, true);
    let exe = std::env::current_exe().expect("current exe");
    let mut child = match Command::new(exe)
        .args(["worker", property, "--chunk", &chunk.to_string(), "--nchunks", &nchunks.to_string(), "--skip", &skip.to_string(), "--shm", &shm, "--out", &out])
        .stdin(Stdio::null())
        .stdout(Stdio::null())
        .stderr(Stdio::inherit())
        .spawn()
    {
        Ok(c) => c,
        Err(e) => return WorkerEnd::Infra(format!("cannot spawn worker: {e}")),
    };
    let mut last_counter = progress.counter();
    let mut last_change = Instant::now();
    let end = loop {
        match child.try_wait() {
            Ok(Some(status)) => {
                use std::os::unix::process::ExitStatusExt;
                if let Some(sig) = status.signal() {
                    let (fields, payload) = progress.read();
                    break WorkerEnd::Crashed { signal: sig, fields, payload, counter: progress.counter() };
                }
                if status.success() {
                    match std::fs::read_to_string(&out).ok().and_then(|t| serde_json::from_str::<Value>(&t).ok()) {
                        Some(v) => break WorkerEnd::Done(v),
                        None => break WorkerEnd::Infra("worker wrote no report".into()),
                    }
                }
                break WorkerEnd::Infra(format!("worker exited with {status}"));
            },
            Ok(None) => {},
            Err(e) => break WorkerEnd::Infra(format!("wait failed: {e}")),
        }
        let c = progress.counter();
        if c != last_counter {
            last_counter = c;
            last_change = Instant::now();
        } else if last_change.elapsed() > Duration::from_secs(if c == 0 { 120 } else { 20 }) {
            let _ = child.kill();
            let _ = child.wait();
            let (fields, payload) = progress.read();
            break WorkerEnd::Hung { fields, payload };
        }
        std::thread::sleep(Duration::from_millis(50));
    };
    let _ = std::fs::remove_file(&shm);
    let _ = std::fs::remove_file(&out);
    end
}

/// Re-execute one recorded case alone (`checks replay`) with a 60 s limit, twice; true = it never returned.
pub fn confirm_hang(property: &str, case: &Value) -> bool {
    let dir = std::env::var("VERIF_SHM_DIR").unwrap_or_else(|_| "/dev/shm".into());
    let file = format!("{dir}/verif-hang-{}-{}.json", std::process::id(), splitmix(hash_bytes(case.to_string().as_bytes())));
    if std::fs::write(&file, json!({"property": property, "subcheck": "non-termination", "case": case}).to_string()).is_err() {
        return false;
    }
    let exe = match std::env::current_exe() {
        Ok(e) => e,
        Err(_) => return false,
    };
    let mut hung = true;
    for _ in 0..2 {
        let mut child = match Command::new(&exe).args(["replay", &file]).stdin(Stdio::null()).stdout(Stdio::null()).stderr(Stdio::null()).spawn() {
            Ok(c) => c,
            Err(_) => {
                hung = false;
                break;
            },
        };
        let t0 = Instant::now();
        let mut returned = false;
        while t0.elapsed() < Duration::from_secs(60) {
            if let Ok(Some(_)) = child.try_wait() {
                returned = true;
                break;
            }
            std::thread::sleep(Duration::from_millis(100));
        }
        if returned {
            hung = false;
            break;
        }
        let _ = child.kill();
        let _ = child.wait();
    }
    let _ = std::fs::remove_file(&file);
    hung
}

/// Merge a worker's partial report (same JSON shape as `Report::to_json`) into `rep`.
pub fn merge_worker_json(rep: &mut Report, v: &Value) {
    if let Some(subs) = v["subchecks"].as_object() {
        for (name, s) in subs {
            let mut l = Local::new();
            l.evaluations = s["evaluations"].as_u64().unwrap_or(0);
            l.nontrivial_enum = s["distinct_nontrivial"].as_u64().unwrap_or(0);
            if let Some(cl) = s["classes"].as_object() {
                for (k, n) in cl {
                    l.classes.insert(k.clone(), n.as_u64().unwrap_or(0));
                }
            }
            rep.add(name, l);
        }
    }
    if let Some(samples) = v["samples"].as_array() {
        for s in samples {
            let name = s["subcheck"].as_str().unwrap_or("worker").to_string();
            let e = rep.subchecks.entry(name).or_insert_with(Local::new);
            if e.samples.len() < 10 {
                e.samples.push(s["case"].clone());
            }
        }
    }
    if let Some(ex) = v["excluded_known"].as_object() {
        let e = rep.subchecks.entry("excluded".into()).or_insert_with(Local::new);
        for (k, n) in ex {
            *e.excluded.entry(k.clone()).or_insert(0) += n.as_u64().unwrap_or(0);
        }
    }
    if let Some(viol) = v["violations"].as_array() {
        for x in viol {
            if rep.violations.len() < 40 {
                rep.violation(x["subcheck"].as_str().unwrap_or("worker"), x["message"].as_str().unwrap_or("").to_string(), x["case"].clone());
            }
        }
    }
    for key in ["exhaustive_subdomains", "notes"] {
        if let Some(a) = v[key].as_array() {
            for s in a {
                if let Some(s) = s.as_str() {
                    let dst = if key == "notes" { &mut rep.notes } else { &mut rep.exhaustive };
                    if !dst.iter().any(|x| x == s) {
                        dst.push(s.to_string());
                    }
                }
            }
        }
    }
}

/// Run `nchunks` workers (at most `ctx.threads` at a time); crashes become violations through
/// `describe(fields, payload) -> (message, replayable case)`.
/// Returns false if an infrastructure problem occurred.
pub fn supervise(ctx: &Ctx, rep: &mut Report, tag: &str, nchunks: usize, describe: impl Fn(&[u32; 6], &[u8]) -> (String, Value) + Sync) -> bool {
    let results = run_workers(ctx.threads, nchunks, |chunk| {
        let mut ends = Vec::new();
        let mut skip = 0u64;
        for _attempt in 0..6 {
            let end = run_one_worker(&ctx.property, chunk, nchunks, skip, tag);
            let again = if let WorkerEnd::Crashed { counter, .. } = &end {
                skip = *counter;
                true
            } else {
                false
            };
            ends.push(end);
            if !again {
                break;
            }
        }
        ends
    });
    let mut ok = true;
    for ends in results {
        for end in ends {
            match end {
                WorkerEnd::Done(v) => merge_worker_json(rep, &v),
                // SIGHUP / SIGINT / SIGQUIT / SIGKILL / SIGTERM are sent from outside (an operator, the OOM killer, a
                // time limit), never raised by a fault of the code under test (SIGSEGV, SIGBUS, SIGABRT, SIGILL, SIGFPE):
                // an infrastructure problem (exit 2), not a verdict
                WorkerEnd::Crashed { signal, fields, payload, .. } if matches!(signal, 1 | 2 | 3 | 9 | 15) => {
                    let (msg, _) = describe(&fields, &payload);
                    rep.notes.push(format!("INFRA: worker process killed from outside by signal {signal} while running: {msg}"));
                    ok = false;
                },
                WorkerEnd::Crashed { signal, fields, payload, .. } => {
                    let (msg, case) = describe(&fields, &payload);
                    rep.violation("process-death", format!("worker process killed by signal {signal} while running: {msg}"), case);
                },
                WorkerEnd::Hung { fields, payload } => {
                    let (msg, mut case) = describe(&fields, &payload);
                    // a stalled worker may only mean a starved machine: the single recorded call is
                    // re-executed in a fresh process, twice, with 60 s each (it normally takes
                    // microseconds). Only if it does not return either time it is reported.
                    if confirm_hang(&ctx.property, &case) {
                        if let Some(o) = case.as_object_mut() {
                            o.insert("hang".into(), json!(true));
                        }
                        rep.violation(
                            "non-termination",
                            format!("the call does not return: worker stalled for 20 s and the single call, re-executed alone in a fresh process, did not return within 60 s (twice): {msg}"),
                            case,
                        );
                    } else {
                        rep.notes.push(format!("WATCHDOG: no progress for 20 s in: {msg} case={case} (the call returned when re-executed alone: machine starved?)"));
                        ok = false;
                    }
                },
                WorkerEnd::Infra(e) => {
                    rep.notes.push(format!("INFRA: {e}"));
                    ok = false;
                },
            }
        }
    }
    if !ok {
        rep.extra.insert("infra_problem".into(), json!(true));
    }
    ok
}
