//! C09 — writers honour the documented buffer bound and never access memory outside it.
//! Buffers are guard-page slices of exactly the requested length (both placements); the work runs
//! in supervised worker processes.

use crate::c05::kind_of;
use crate::c10::recorded;
use crate::c12::Ty;
use crate::cat::cat;
use crate::lex::*;
use crate::sup;
use crate::wopts::{self, WOpts};
use catalogue::{INT_BITS, INT_SIGNED};
use proptest::prelude::*;
use serde_json::{json, Value};
use std::cell::RefCell;
use vcore::gen;
use vcore::guardbuf::GuardBuf;
use vcore::report::*;

thread_local! {
    static GBUF: RefCell<GuardBuf> = RefCell::new(GuardBuf::new(1 << 17));
}
const SMALL: usize = 1 << 17;
const WINDOW: usize = 256;

#[derive(Clone, Debug)]
pub struct Job {
    pub entry: usize,
    pub ty: Ty,
}

#[derive(Clone, Debug)]
pub struct Case {
    /// float bits or erased integer
    pub value: u128,
    pub opts: WOpts,
    /// selector for the short buffer length
    pub short: u16,
}

pub fn case_json(j: &Job, c: &Case, buflen: Option<usize>, at_end: Option<bool>) -> Value {
    json!({"format": cat().entries[j.entry].name, "type": j.ty.name(), "value": format!("{:#x}", c.value), "options": c.opts.to_json(), "short": c.short,
           "buffer_len": buflen, "placement": at_end.map(|e| if e { "flush-with-trailing-guard" } else { "flush-with-leading-guard" })})
}

enum Outcome {
    Wrote(usize, usize),
    Panicked(String),
    Skipped,
}

/// one guarded write into a slice of exactly `len` bytes
fn guarded_write(j: &Job, c: &Case, len: usize, at_end: bool) -> (Outcome, bool) {
    let e = &cat().entries[j.entry];
    let mut payload = Vec::with_capacity(48);
    payload.extend_from_slice(&c.value.to_le_bytes());
    payload.extend_from_slice(&c.opts.to_bytes());
    payload.extend_from_slice(&c.short.to_le_bytes());
    let fields = [j.entry as u32, crate::c10::ty_code(j.ty), 0, at_end as u32, len.min(u32::MAX as usize) as u32, (len >> 32) as u32];
    let run = |g: &mut GuardBuf| -> (Outcome, bool) {
        let out = {
            let buf = g.slice_mut(len, at_end);
            match j.ty {
                Ty::Float(fi) => {
                    let (wf, _) = e.wf[fi].expect("float writer");
                    let o = c.opts.to_lexical();
                    guard(|| wf(c.value as u64, buf, &o))
                },
                Ty::Int(ii) => {
                    let (wi, _) = e.wi[ii].expect("int writer");
                    let o = lexical_core::WriteIntegerOptions::new();
                    guard(|| wi(c.value, buf, &o))
                },
            }
        };
        let intact = g.canary_intact(len, at_end, WINDOW);
        g.reset(len.min(SMALL), at_end, WINDOW);
        match out {
            Ok((off, n)) => (Outcome::Wrote(off, n), intact),
            Err(p) => (Outcome::Panicked(p), intact),
        }
    };
    let r = recorded(fields, &payload, || {
        if len + 2 * WINDOW <= SMALL {
            GBUF.with(|g| run(&mut g.borrow_mut()))
        } else {
            // large documented bounds (huge exponent breaks / digit counts): a dedicated sparse mapping
            let mut g = GuardBuf::new(len + 2 * WINDOW);
            let off = g.offset(len, at_end);
            g.fill_canary_range(off.saturating_sub(WINDOW), WINDOW);
            g.fill_canary_range(off, len.min(4096));
            g.fill_canary_range(off + len, WINDOW);
            run(&mut g)
        }
    });
    match r {
        Some(x) => x,
        None => (Outcome::Skipped, true),
    }
}

pub fn check_case(j: &Job, c: &Case, l: &mut Local) -> CaseResult {
    let e = &cat().entries[j.entry];
    let m = &cat().models[j.entry];
    let desc = |what: String| Fail::new(format!("{} {} [{}] value {:#x} options {}: {}", j.ty.name(), e.name, m.describe(), c.value, c.opts.to_json(), what));
    // the documented bound
    let bound = match j.ty {
        Ty::Float(fi) => {
            let (_, bs) = e.wf[fi].expect("float writer");
            let o = c.opts.to_lexical();
            match guard(|| bs(&o)) {
                Ok(b) => b,
                Err(p) => return Err(desc(format!("evaluating buffer_size_const panics: {p}"))),
            }
        },
        Ty::Int(ii) => {
            let (_, bs) = e.wi[ii].expect("int writer");
            let o = lexical_core::WriteIntegerOptions::new();
            match guard(|| bs(&o)) {
                Ok(b) => b,
                Err(p) => return Err(desc(format!("evaluating buffer_size_const panics: {p}"))),
            }
        },
    };
    // a special value whose string is disabled is documented to panic (C15): not a buffer question
    if let Ty::Float(fi) = j.ty {
        let k = kind_of(fi);
        let b = c.value as u64;
        if (k.is_nan(b) && c.opts.nan == usize::MAX) || (k.is_inf(b) && c.opts.inf == usize::MAX) {
            l.class("skipped:special-with-disabled-string");
            return Ok(());
        }
    }
    if bound > (1usize << 33) {
        l.class("skipped:bound-above-8GiB");
        return Ok(());
    }
    let default_opts = match j.ty {
        Ty::Float(_) => c.opts == WOpts { exponent: c.opts.exponent, ..WOpts::default_for(m) },
        Ty::Int(_) => true,
    };
    let mut written: Option<usize> = None;
    // (1) at least the bound: must succeed, prefix of the buffer, no longer than the bound
    for (extra, at_end) in [(0usize, true), (0, false), (1, true), (7, false)] {
        let len = bound + extra;
        let (out, intact) = guarded_write(j, c, len, at_end);
        l.eval(1);
        match out {
            Outcome::Skipped => continue,
            Outcome::Panicked(p) => {
                return Err(desc(format!("panicked with a buffer of {len} bytes (documented bound {bound}): {p}")));
            },
            Outcome::Wrote(off, n) => {
                if off != 0 {
                    return Err(desc(format!("returned slice starts {off} bytes into the buffer")));
                }
                if n > bound {
                    return Err(desc(format!("returned {n} bytes, more than the documented bound {bound}")));
                }
                written = Some(n);
                l.class(&format!("slack:{}", match bound - n { 0 => "0", 1..=3 => "1-3", 4..=15 => "4-15", 16..=63 => "16-63", _ => ">=64" }));
            },
        }
        if !intact {
            return Err(desc(format!("bytes outside the caller's {len}-byte slice were modified")));
        }
    }
    // (2) shorter buffers: succeed within the slice or panic
    let mut shorts: Vec<usize> = Vec::new();
    if bound > 0 {
        shorts.push(gen::pick(c.short, bound));
        shorts.push(0);
        shorts.push(bound - 1);
        if let Some(n) = written {
            if n > 0 && n <= bound {
                shorts.push(n - 1);
                shorts.push(n.min(bound - 1));
            }
        }
    }
    shorts.sort();
    shorts.dedup();
    for len in shorts {
        for at_end in [true, false] {
            let (out, intact) = guarded_write(j, c, len, at_end);
            l.eval(1);
            match out {
                Outcome::Skipped => continue,
                Outcome::Panicked(_) => l.class("short-buffer:panic"),
                Outcome::Wrote(off, n) => {
                    l.class("short-buffer:ok");
                    if off != 0 || n > len {
                        return Err(desc(format!("with a {len}-byte buffer the returned slice (offset {off}, length {n}) is not inside the buffer")));
                    }
                },
            }
            if !intact {
                return Err(desc(format!("bytes outside the caller's {len}-byte slice were modified (short buffer)")));
            }
        }
    }
    if !default_opts || bound > 0 {
        l.nontrivial_hash(splitmix(c.value as u64 ^ ((c.value >> 64) as u64).rotate_left(7) ^ hash_bytes(&c.opts.to_bytes()) ^ ((j.entry as u64) << 40) ^ ((crate::c10::ty_code(j.ty) as u64) << 56)));
        if l.want_sample() {
            l.sample(case_json(j, c, Some(bound), None));
        }
    }
    Ok(())
}

pub fn jobs() -> Vec<Job> {
    let c = cat();
    let mut v = Vec::new();
    let mut seen = std::collections::HashSet::new();
    for g in ["core", "write", "syntax", "prebuilt"] {
        for i in c.group(g) {
            let e = &c.entries[i];
            let m = &c.models[i];
            if !e.is_valid {
                continue;
            }
            for fi in 0..2 {
                if e.wf[fi].is_some() && m.float_radix_pair_ok() && seen.insert((e.packed, 100 + fi)) {
                    v.push(Job { entry: i, ty: Ty::Float(fi) });
                }
            }
            for ii in 0..12 {
                if e.wi[ii].is_some() && seen.insert((e.packed, ii)) {
                    v.push(Job { entry: i, ty: Ty::Int(ii) });
                }
            }
        }
    }
    v
}

fn case_strategy(j: &Job) -> BoxedStrategy<Case> {
    let m = &cat().models[j.entry];
    match j.ty {
        Ty::Float(fi) => {
            let k = kind_of(fi);
            let specials = prop_oneof![Just(k.inf_bits()), Just(k.inf_bits() | k.sign_mask()), Just(k.inf_bits() | 1), Just(k.inf_bits() | k.sign_mask() | 77)];
            let value = prop_oneof![12 => gen::finite_bits(k), 1 => specials];
            (value, wopts::strategy(m, true), any::<u16>()).prop_map(|(v, opts, short)| Case { value: v as u128, opts, short }).boxed()
        },
        Ty::Int(ii) => {
            let opts = WOpts::default_for(m);
            (gen::int_value(INT_BITS[ii], INT_SIGNED[ii], m.mantissa_radix()), any::<u16>()).prop_map(move |(v, short)| Case { value: v, opts: opts.clone(), short }).boxed()
        },
    }
}

pub fn run_worker(ctx: &Ctx, rep: &mut Report, chunk: usize, nchunks: usize) {
    let js = jobs();
    let nf = js.iter().filter(|j| matches!(j.ty, Ty::Float(_))).count().max(1) as u64;
    let ni = js.iter().filter(|j| matches!(j.ty, Ty::Int(_))).count().max(1) as u64;
    let per_of = |j: &Job| match j.ty {
        Ty::Float(_) => ctx.n((300_000 / nf).max(250), (6_000_000 / nf).max(4_000)),
        Ty::Int(_) => ctx.n((200_000 / ni).max(150), (4_000_000 / ni).max(2_000)),
    };
    // work units: a job is split into parts so that builds with few formats still use every worker;
    // each (job, part) has its own generator stream
    let total: u64 = js.iter().map(|j| per_of(j)).sum();
    let target = (total / (nchunks as u64 * 4)).max(200);
    let mut unit = 0usize;
    for (ji, j) in js.iter().enumerate() {
        let per = per_of(j);
        let parts = ((per + target - 1) / target).max(1);
        for part in 0..parts {
            let mine = unit % nchunks == chunk;
            unit += 1;
            if !mine {
                continue;
            }
            let mut ctx1 = ctx.clone();
            ctx1.threads = 1;
            ctx1.seed = mix(ctx.seed, &["c09-unit", &ji.to_string(), &part.to_string()]);
            let n = per / parts + if part < per % parts { 1 } else { 0 };
            let jobs1 = [j.clone()];
            run_prop_jobs(rep, &ctx1, if matches!(j.ty, Ty::Float(_)) { "floats:generated" } else { "integers:generated" }, &jobs1, n, case_strategy, |j, c| case_json(j, c, None, None), check_case);
        }
    }
}

pub fn describe(fields: &[u32; 6], payload: &[u8]) -> (String, Value) {
    let entry = (fields[0] as usize).min(cat().entries.len() - 1);
    let ty = crate::c10::ty_from_code(fields[1]);
    let len = fields[4] as usize | ((fields[5] as usize) << 32);
    let mut vb = [0u8; 16];
    if payload.len() >= 16 {
        vb.copy_from_slice(&payload[..16]);
    }
    let value = u128::from_le_bytes(vb);
    let opts = if payload.len() >= 40 { WOpts::from_bytes(&payload[16..40]) } else { WOpts::default_for(&cat().models[entry]) };
    let short = if payload.len() >= 42 { u16::from_le_bytes([payload[40], payload[41]]) } else { 0 };
    let j = Job { entry, ty };
    let c = Case { value, opts, short };
    (format!("{} {} write(value {:#x}) into a {}-byte buffer [{}]", ty.name(), cat().entries[entry].name, value, len, if fields[3] == 1 { "flush with trailing guard" } else { "flush with leading guard" }), case_json(&j, &c, Some(len), Some(fields[3] == 1)))
}

pub fn run(ctx: &Ctx, rep: &mut Report) {
    rep.rule = "cases: for every compiled writer (all integer types x every radix format; f32/f64 x core, write-flag, syntax and \
        prebuilt formats): generated values (floats: structured finite patterns, specials; integers: edges, r^k+-1, chunk \
        products) x generated valid write options (max/min significant digits None, 1..64, 65..2000; exponent breaks None, \
        +-1..20, around +-300, +-1000, i32::MIN/MAX and uniform over i32; round mode; trim; valid punctuation; nan/inf strings) x \
        buffer lengths {bound, bound+1, bound+7} and {0, a generated length below the bound, bound-1, written-1, written} in \
        both guard-page placements, inside supervised worker processes. Oracle/monitor: the bound itself evaluates without \
        panic; with len >= bound no panic, the returned slice is a prefix no longer than the bound; with len < bound Ok inside \
        the slice or a panic; canary bytes around the slice intact; no fault (worker survives). The slack histogram bound - \
        written is reported. Third observation point: lexical::to_string_with_options, which allocates the bound itself, for \
        the formats instantiated for the facade x the same options (bounds up to 1 MiB): no panic, length <= bound. non-trivial = every evaluated (format, type, value, options) tuple; distinct by hashing."
        .into();
    rep.assumptions = vec![
        "writing a special value whose string option is None is documented to panic and is not judged here (C15)".into(),
        "documented bounds above 8 GiB are skipped (they cannot be mapped)".into(),
    ];
    let nchunks = ctx.threads.max(1) * 2;
    let ok = sup::supervise(ctx, rep, "c09", nchunks, describe);
    if !ok {
        rep.notes.push("infrastructure problem in at least one worker".into());
    }
    // the third observation point: lexical::to_string_with_options allocates the documented bound itself
    run_prop(rep, ctx, "facade:to_string_with_options", ctx.n(300_000, 6_000_000), || crate::c17::facade_case_strategy(true), crate::c17::facade_case_json, crate::c17::check_facade_bound);
}

pub fn replay(_ctx: &Ctx, case: &Value) -> CaseResult {
    crate::c10::init_worker(None, 0);
    let mut l = Local::new();
    if case["kind"].as_str() == Some("facade-write") {
        let c = crate::c17::facade_case_from_json(case).ok_or_else(|| Fail::new("facade format not available in this configuration"))?;
        return crate::c17::check_facade_bound(&c, &mut l);
    }
    let fmt = case["format"].as_str().unwrap_or("STANDARD");
    let entry = cat().idx(fmt).ok_or_else(|| Fail::new(format!("format {fmt} not compiled in this configuration")))?;
    let ty = Ty::from_name(case["type"].as_str().unwrap_or("f64"));
    let value = u128::from_str_radix(case["value"].as_str().unwrap_or("0x0").trim_start_matches("0x"), 16).unwrap_or(0);
    let c = Case { value, opts: WOpts::from_json(&case["options"]), short: case["short"].as_u64().unwrap_or(0) as u16 };
    check_case(&Job { entry, ty }, &c, &mut l)
}
