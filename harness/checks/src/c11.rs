//! C11 — partial and complete parsers agree.

use crate::c05::kind_of;
use crate::c12::{alphabet, case_json, for_each_string, Ty};
use crate::c13::lex_partial;
use crate::cat::cat;
use crate::lex::*;
use proptest::prelude::*;
use serde_json::{json, Value};
use vcore::fmodel::FormatModel;
use vcore::gen;
use vcore::refparse::OptModel;
use vcore::report::*;

#[derive(Clone, Debug)]
pub struct Job {
    pub entry: usize,
    pub ty: Ty,
    /// 0 = standard punctuation for the format, 1 = custom decimal point / exponent character
    pub punct: u8,
}

pub fn opt_model(m: &FormatModel, punct: u8) -> OptModel {
    let mut o = crate::c12::opt_model_for(m);
    if punct == 1 {
        o.decimal_point = b',';
        if m.digit_separator == b',' {
            o.decimal_point = b';';
        }
        // an exponent character that is not a digit of either radix, nor other punctuation
        o.exponent = if m.mantissa_radix().max(m.exponent_radix()) >= 14 { b'~' } else { b'd' };
        if o.exponent == m.base_prefix || o.exponent == m.base_suffix || o.exponent == m.digit_separator {
            o.exponent = b'~';
        }
    }
    if punct == 2 {
        o.nan = Some(crate::c12::ALT_NAN.to_vec());
        o.inf = Some(crate::c12::ALT_INF.to_vec());
        o.infinity = Some(crate::c12::ALT_INFINITY.to_vec());
    }
    o
}

fn lex_complete_o(entry: usize, ty: Ty, text: &[u8], o: &OptModel) -> POut {
    crate::c12::lex_complete(entry, ty, text, o)
}

/// Narrow structural matchers for the known findings of this property.
fn classify(m: &FormatModel, ty: Ty, text: &[u8], rel: &str, a: &POut, b: &POut) -> Option<&'static str> {
    // specials whose first letter is a digit of the radix (radix >= 19 for 'i', >= 24 for 'n'):
    // number/special precedence differs between the complete and the partial parser
    if let Ty::Float(fi) = ty {
        let k = kind_of(fi);
        let body = if !text.is_empty() && (text[0] == b'+' || text[0] == b'-') { &text[1..] } else { text };
        let names: [&[u8]; 3] = [b"nan", b"inf", b"infinity"];
        let starts_special = names.iter().any(|s| body.len() >= s.len() && body[..s.len()].eq_ignore_ascii_case(s));
        let first_is_digit = body.first().map_or(false, |&c| vcore::numtext::digit_val(c, m.mantissa_radix()).is_some());
        let special = |o: &POut| matches!(o, POut::Ok(x, _) if *x == u128::MAX || k.is_inf(*x as u64));
        let finite = |o: &POut| matches!(o, POut::Ok(x, _) if *x != u128::MAX && k.is_finite(*x as u64));
        if m.mantissa_radix() >= 19 && starts_special && first_is_digit && ((special(a) && finite(b)) || (finite(a) && special(b))) {
            return Some("c11_special_string_is_numeric_in_radix");
        }
    }
    // digits-optional formats: the partial parser accepts the empty number before a special string
    if let Ty::Float(fi) = ty {
        let k = kind_of(fi);
        let sign_len = if !text.is_empty() && (text[0] == b'+' || text[0] == b'-') { 1 } else { 0 };
        let special = |o: &POut| matches!(o, POut::Ok(x, _) if *x == u128::MAX || k.is_inf(*x as u64));
        // consumed nothing but the sign and (in separator formats) digit separators
        let only_sign_and_seps = |n: usize| n >= sign_len && n <= text.len() && text[sign_len.min(n)..n].iter().all(|&c| m.digit_separator != 0 && c == m.digit_separator);
        let zero_at_sign = matches!(b, POut::Ok(x, n) if only_sign_and_seps(*n) && (*x as u64) & !k.sign_mask() == 0 && *x != u128::MAX);
        if rel.starts_with("(a)") && !m.required_mantissa_digits && !m.required_integer_digits && special(a) && zero_at_sign {
            return Some("c11_partial_reads_empty_number_before_special");
        }
    }
    if !rel.starts_with("(b)") {
        return None;
    }
    // here `a` = complete(s[..n]) and `b` = partial(s) = Ok((v, n))
    let (v, n) = match b {
        POut::Ok(v, n) => (*v, *n),
        _ => return None,
    };
    let prefix = &text[..n.min(text.len())];
    match ty {
        Ty::Int(_) => {
            // consumed prefix = optional sign + optional base prefix and nothing else, value 0,
            // and the complete parser calls that prefix Empty
            // consumed prefix, with digit separators removed, is [sign]["0" prefix-char] and nothing else
            let stripped: Vec<u8> = prefix.iter().copied().filter(|&c| !(m.digit_separator != 0 && c == m.digit_separator)).collect();
            let mut k = 0;
            if k < stripped.len() && (stripped[k] == b'+' || stripped[k] == b'-') {
                k += 1;
            }
            if m.base_prefix != 0 && k + 1 < stripped.len() && stripped[k] == b'0' && stripped[k + 1].eq_ignore_ascii_case(&m.base_prefix) {
                k += 2;
            }
            let i = if k == stripped.len() { prefix.len() } else { usize::MAX };
            if i == prefix.len() && i > 0 && v == 0 && matches!(a, POut::Err(k, _) if k == "Empty") {
                return Some("c11_int_partial_sign_without_digits");
            }
        },
        Ty::Float(_) => {},
    }
    None
}

pub fn check_input(j: &Job, text: &[u8], l: &mut Local) -> CaseResult {
    let m = &cat().models[j.entry];
    let e = &cat().entries[j.entry];
    let o = opt_model(m, j.punct);
    let c = lex_complete_o(j.entry, j.ty, text, &o);
    let p = lex_partial(j.entry, j.ty, text, &o);
    l.eval(1);
    let mk = |rel: &'static str, detail: String, a: &POut, b: &POut| {
        let msg = format!(
            "{} {} [{}] (point {:?}, exponent {:?}) input {:?}: {} — {}",
            j.ty.name(),
            e.name,
            m.describe(),
            o.decimal_point as char,
            o.exponent as char,
            show(text),
            rel,
            detail
        );
        match classify(m, j.ty, text, rel, a, b) {
            Some(k) => Fail::known(msg, k),
            None => Fail::new(msg),
        }
    };
    // non-trivial: partial stopped inside the input, or the input ends in a structural byte
    let structural = |b: u8| b == b'+' || b == b'-' || b == o.decimal_point || b.eq_ignore_ascii_case(&o.exponent) || (m.digit_separator != 0 && b == m.digit_separator) || (m.base_suffix != 0 && b.eq_ignore_ascii_case(&m.base_suffix));
    let nontrivial = matches!(&p, POut::Ok(_, n) if *n > 0 && *n < text.len()) || text.last().map_or(false, |&b| structural(b));
    if nontrivial {
        l.nontrivial_bytes(((j.entry as u64) << 12) | ((j.punct as u64) << 8) | match j.ty { Ty::Float(i) => i as u64, Ty::Int(i) => 16 + i as u64 }, text);
        if l.want_sample() && text.len() > 2 {
            l.sample(case_json(j.entry, j.ty, text));
        }
    }
    match &p {
        POut::Ok(_, n) if *n == text.len() => l.class("partial:all"),
        POut::Ok(_, 0) => l.class("partial:none"),
        POut::Ok(..) => l.class("partial:prefix"),
        POut::Err(..) => l.class("partial:err"),
        POut::Panic(_) => l.class("partial:panic"),
    }
    if matches!(c, POut::Panic(_)) || matches!(p, POut::Panic(_)) {
        return Err(mk("no panic", format!("complete: {}; partial: {}", c.show(), p.show()), &c, &p));
    }
    // (a) complete(s) = Ok(v)  <=>  partial(s) = Ok((v, len))
    let c_ok = if let POut::Ok(v, _) = &c { Some(*v) } else { None };
    let p_full = match &p {
        POut::Ok(v, n) if *n == text.len() => Some(*v),
        _ => None,
    };
    if c_ok != p_full {
        return Err(mk("(a) complete(s)=Ok(v) iff partial(s)=Ok((v,len))", format!("complete: {}; partial: {}", c.show(), p.show()), &c, &p));
    }
    // (b) partial(s) = Ok((v, n)), n > 0  =>  complete(s[..n]) = Ok(v)
    if let POut::Ok(v, n) = &p {
        if *n > text.len() {
            return Err(mk("count <= len", format!("partial: {}", p.show()), &c, &p));
        }
        if *n > 0 && *n < text.len() {
            let c2 = lex_complete_o(j.entry, j.ty, &text[..*n], &o);
            if !matches!(&c2, POut::Ok(v2, _) if v2 == v) {
                return Err(mk(
                    "(b) partial(s)=Ok((v,n)), n>0 => complete(s[..n])=Ok(v)",
                    format!("partial: {}; complete({:?}) = {}", p.show(), show(&text[..*n]), c2.show()),
                    &c2,
                    &p,
                ));
            }
        }
    }
    Ok(())
}

pub fn jobs() -> Vec<Job> {
    let c = cat();
    let mut v = Vec::new();
    let mut seen = std::collections::HashSet::new();
    for g in ["core", "syntax", "prebuilt", "write", "sep", "prefix_noreq"] {
        for i in c.group(g) {
            let e = &c.entries[i];
            let m = &c.models[i];
            if !e.is_valid {
                continue;
            }
            if let Ok(f) = std::env::var("VERIF_FORMATS") {
                if !e.name.contains(&f) {
                    continue;
                }
            }
            for fi in 0..2 {
                if e.pf[fi].is_some() && m.float_radix_pair_ok() && seen.insert((e.packed, 100 + fi)) {
                    v.push(Job { entry: i, ty: Ty::Float(fi), punct: 0 });
                    if fi == 1 {
                        v.push(Job { entry: i, ty: Ty::Float(fi), punct: 1 });
                    }
                    // alternative special strings where specials are parsed as such (letters are not digits)
                    if m.mantissa_radix() <= 10 && !m.no_special && (g == "core" || g == "sep" || e.name.contains("special") || e.name.contains("SPECIAL")) {
                        v.push(Job { entry: i, ty: Ty::Float(fi), punct: 2 });
                    }
                }
            }
            for ii in 0..12 {
                if e.pi[ii].is_some() && seen.insert((e.packed, ii)) {
                    // all 12 integer types only for STANDARD and two radices; two types elsewhere
                    let all_types = e.name == "STANDARD" || e.name == "R16" || e.name == "R3" || m.base_prefix != 0 || m.base_suffix != 0 || (m.digit_separator != 0 && m.integer_sep.any());
                    if all_types || ii == 8 || ii == 3 || ii == 2 || ii == 9 {
                        v.push(Job { entry: i, ty: Ty::Int(ii), punct: 0 });
                    }
                }
            }
        }
    }
    v
}

fn suffix_strategy(m: &FormatModel, ty: Ty, o: &OptModel) -> BoxedStrategy<Vec<u8>> {
    let rx = m.radices();
    let (pt, ec) = (o.decimal_point, o.exponent);
    let base: BoxedStrategy<Vec<u8>> = match ty {
        Ty::Float(fi) => {
            let k = kind_of(fi);
            prop_oneof![
                2 => gen::midpoint_text(k, rx, pt, ec).prop_map(|(t, _)| t),
                3 => gen::grammar_text(rx, pt, ec).prop_map(|(t, _)| t),
                3 => gen::fastpath_text(k, rx, pt, ec).prop_map(|(t, _)| t),
            ]
            .boxed()
        },
        Ty::Int(ii) => {
            let bits = catalogue::INT_BITS[ii];
            let signed = catalogue::INT_SIGNED[ii];
            let radix = rx.mant;
            gen::int_value(bits, signed, radix).prop_map(move |v| gen::ref_numeral(v, bits, signed, radix, false)).boxed()
        },
    };
    let sep = m.digit_separator;
    let sfx = m.base_suffix;
    let pfx = m.base_prefix;
    let bb = gen::boundary_bytes(rx.mant.max(rx.exp));
    let (bb1, bb2, bb3) = (bb.clone(), bb.clone(), bb.clone());
    let sepc = sep.max(b'_');
    let tail = prop_oneof![
        2 => Just(vec![]),
        2 => any::<u8>().prop_map(|b| vec![b]),
        // bytes next to the digit ranges (alone, after a separator, before another digit)
        2 => any::<u16>().prop_map(move |i| vec![bb1[gen::pick(i, bb1.len())]]),
        1 => any::<u16>().prop_map(move |i| vec![sepc, bb2[gen::pick(i, bb2.len())]]),
        1 => any::<u16>().prop_map(move |i| vec![bb3[gen::pick(i, bb3.len())], b'1']),
        1 => Just(vec![sep.max(b'_')]),
        1 => Just(vec![b'+']),
        1 => Just(vec![b'-']),
        1 => Just(vec![ec]),
        1 => Just(vec![ec, b'+']),
        1 => Just(vec![pt]),
        1 => Just(vec![pt, pt]),
        1 => Just(vec![if sfx != 0 { sfx } else { b'h' }]),
        1 => Just(vec![b' ', b'1']),
        1 => Just(b"1.5e3".to_vec()),
        1 => Just(b"nan".to_vec()),
        1 => Just(b"inf".to_vec()),
        1 => Just(b"infinity".to_vec()),
    ];
    let head = prop_oneof![6 => Just(vec![]), 1 => Just(vec![b'0', if pfx != 0 { pfx } else { b'x' }]), 1 => Just(vec![b'+']), 1 => Just(vec![b' '])];
    (head, base, tail, proptest::collection::vec((any::<u16>(), any::<u8>()), 0..2))
        .prop_map(move |(h, mut t, tl, muts)| {
            if t.len() > 600 {
                t.truncate(600);
            }
            let mut out = h;
            out.extend(t);
            out.extend(tl);
            for (pos, b) in muts {
                if !out.is_empty() {
                    let p = gen::pick(pos, out.len());
                    out[p] = match b % 6 {
                        0 => sep.max(b'_'),
                        1 => b'+',
                        2 => ec,
                        3 => pt,
                        4 => bb[(b as usize / 6) % bb.len()],
                        _ => b,
                    };
                }
            }
            out
        })
        .boxed()
}

/// special strings of the job's options with case flips, separators inserted and a tail
fn special_strategy(m: &FormatModel, o: &OptModel) -> BoxedStrategy<Vec<u8>> {
    let names: Vec<Vec<u8>> = [o.nan.clone(), o.inf.clone(), o.infinity.clone()].into_iter().flatten().collect();
    let sep = if m.digit_separator != 0 { m.digit_separator } else { b'_' };
    let n = names.len().max(1);
    (
        0..n,
        any::<u64>(),
        proptest::collection::vec(any::<u16>(), 0..7),
        prop_oneof![3 => Just(0u8), 2 => Just(1u8), 1 => Just(2u8)],
        prop_oneof![4 => Just(vec![]), 1 => any::<u8>().prop_map(|b| vec![b]), 1 => Just(vec![b'1']), 1 => Just(vec![b'y']), 1 => Just(b"ty".to_vec()), 1 => Just(vec![b'.']), 1 => Just(vec![b' '])],
        any::<bool>(),
    )
        .prop_map(move |(i, flips, seps, sign, tail, sep_tail)| {
            let mut t: Vec<u8> = names.get(i).cloned().unwrap_or_else(|| b"nan".to_vec());
            for (k, b) in t.iter_mut().enumerate() {
                if flips >> (k % 64) & 1 == 1 {
                    *b ^= 0x20;
                }
            }
            for p in seps {
                let at = gen::pick(p, t.len() + 1);
                t.insert(at, sep);
            }
            let mut out = match sign {
                1 => vec![b'-'],
                2 => vec![b'+'],
                _ => vec![],
            };
            out.extend(t);
            if sep_tail {
                out.push(sep);
            }
            out.extend(tail);
            out
        })
        .boxed()
}

pub fn run(ctx: &Ctx, rep: &mut Report) {
    rep.rule = "cases: for every valid compiled format (core, syntax, prebuilt, write and separator groups) x {f32, f64 (standard and \
        custom decimal point / exponent character), integers (all 12 types for STANDARD/R16/R3, four types elsewhere)}: (i) all \
        strings of length <= L (quick 4, thorough 5) over the per-format alphabet (signs, digits, point, exponent in both cases, \
        prefix/suffix letters, separator, special-string letters, space, the largest digit with its high bit set); (ii) generated numbers followed by a suffix \
        (nothing, junk byte, separator, sign, exponent, point, suffix letter, another number, special string), optionally \
        preceded by a prefix and mutated at one position; (iii) the configured special strings (default NaN/inf/infinity and an \
        alternative set whose NaN string is longer than the long infinity string) with case flips, 0-6 inserted separators, sign \
        and a tail. Oracle (pure relations, no model): (a) complete(s)=Ok(v) iff \
        partial(s)=Ok((v,len(s))); (b) partial(s)=Ok((v,n)) with n>0 => complete(s[..n])=Ok(v); NaN == NaN. non-trivial = the partial \
        parser stopped strictly inside the input, or the input ends in a structural byte; distinct = distinct (format, type, options, text)."
        .into();
    let js = jobs();
    let max_len = if ctx.thorough() { 5 } else { 4 };
    run_enum(rep, ctx, "enumerated:short-strings", js.len(), |ji, l, viol| {
        let j = &js[ji];
        let m = &cat().models[j.entry];
        let o = opt_model(m, j.punct);
        let alpha = alphabet(m, &o, true);
        let mut nviol = 0;
        for_each_string(&alpha, max_len, |s| {
            if let Err(f) = check_input(j, s, l) {
                if filter_known(ctx, l, &f) {
                    let mut cj = case_json(j.entry, j.ty, s);
                    cj["punct"] = json!(j.punct);
                    viol.push((f.message, cj));
                    nviol += 1;
                    return nviol < max_viol().saturating_sub(2).max(1);
                }
            }
            true
        });
    });
    rep.exhaustive.push(format!("all strings of length <= {max_len} over the per-format alphabet x {} (format, type, options) triples", js.len()));
    let per = ctx.n(1500, 30_000);
    run_prop_jobs(
        rep,
        ctx,
        "generated:number+suffix",
        &js,
        per,
        |j| {
            let m = &cat().models[j.entry];
            suffix_strategy(m, j.ty, &opt_model(m, j.punct))
        },
        |j, t| {
            let mut v = case_json(j.entry, j.ty, t);
            v["punct"] = json!(j.punct);
            v
        },
        |j, t, l| check_input(j, t, l),
    );
    // (iii) special strings (default and alternative option strings) with separators and tails
    let fj: Vec<Job> = js.iter().filter(|j| matches!(j.ty, Ty::Float(_)) && j.punct != 1 && !cat().models[j.entry].no_special && cat().models[j.entry].mantissa_radix() <= 10).cloned().collect();
    run_prop_jobs(
        rep,
        ctx,
        "generated:special-strings",
        &fj,
        ctx.n(1500, 25_000),
        |j| {
            let m = &cat().models[j.entry];
            special_strategy(m, &opt_model(m, j.punct))
        },
        |j, t| {
            let mut v = case_json(j.entry, j.ty, t);
            v["punct"] = json!(j.punct);
            v
        },
        |j, t, l| check_input(j, t, l),
    );
}

pub fn replay(_ctx: &Ctx, case: &Value) -> CaseResult {
    let mut l = Local::new();
    let fmt = case["format"].as_str().unwrap_or("STANDARD");
    let entry = match cat().idx(fmt) {
        Some(i) => i,
        None => return Err(Fail::new(format!("format {fmt} not compiled in this configuration"))),
    };
    let ty = Ty::from_name(case["type"].as_str().unwrap_or("f64"));
    let punct = case["punct"].as_u64().unwrap_or(0) as u8;
    check_input(&Job { entry, ty, punct }, &unhex(case["text_hex"].as_str().unwrap_or("")), &mut l)
}
