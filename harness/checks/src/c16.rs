//! C16 — cargo features are additive: the default (decimal, STANDARD) API gives identical results
//! in every build configuration. Each build evaluates the same seeded stream of cases and emits
//! one hash per chunk and result class; run.py compares the hashes across builds and, on a
//! mismatch, asks both builds to dump the chunk to name the first differing case.

use crate::lex::*;
use proptest::prelude::*;
use serde_json::{json, Value};
use vcore::flt::{F32, F64};
use vcore::gen;
use vcore::numtext::Radices;
use vcore::report::*;

pub const CHUNK: usize = 1024;

#[derive(Clone, Debug)]
pub enum Item {
    /// ty: 0 f32, 1 f64
    ParseF { ty: u8, text: Vec<u8> },
    /// ty: 0..12 integer type index
    ParseI { ty: u8, text: Vec<u8> },
    WriteI { ty: u8, value: u128 },
    WriteF { ty: u8, bits: u64 },
}

const INT_T: [(u32, bool); 12] = [(8, false), (16, false), (32, false), (64, false), (128, false), (64, false), (8, true), (16, true), (32, true), (64, true), (128, true), (64, true)];

fn strategy() -> BoxedStrategy<Item> {
    let rx = Radices::DECIMAL;
    let ftext = |k| {
        prop_oneof![
            6 => gen::midpoint_text(k, rx, b'.', b'e').prop_map(|(t, _)| t),
            2 => gen::value_text(k, rx, b'.', b'e').prop_map(|(t, _)| t),
            4 => gen::grammar_text(rx, b'.', b'e').prop_map(|(t, _)| t),
            3 => gen::fastpath_text(k, rx, b'.', b'e').prop_map(|(t, _)| t),
            1 => gen::range_edge_text(k, rx, b'.', b'e').prop_map(|(t, _)| t),
            1 => prop_oneof![Just(b"nan".to_vec()), Just(b"NaN".to_vec()), Just(b"inf".to_vec()), Just(b"-infinity".to_vec()), Just(b"+Inf".to_vec()), Just(b"infinit".to_vec()), Just(b"na".to_vec()), Just(b"".to_vec()), Just(b"+".to_vec()), Just(b".".to_vec()), Just(b"e5".to_vec()), Just(b"1e".to_vec()), Just(b"1e+".to_vec()), Just(b"-.e1".to_vec())],
            1 => proptest::collection::vec(any::<u8>(), 0..12),
        ]
    };
    let mutate = |t: BoxedStrategy<Vec<u8>>| {
        (t, proptest::collection::vec((any::<u16>(), any::<u8>()), 0..2), prop_oneof![2 => Just(None), 1 => any::<u8>().prop_map(Some)]).prop_map(|(mut t, muts, tail)| {
            if t.len() > 900 {
                t.truncate(900);
            }
            for (p, b) in muts {
                if !t.is_empty() {
                    let i = gen::pick(p, t.len());
                    t[i] = b;
                }
            }
            if let Some(b) = tail {
                t.push(b);
            }
            t
        })
    };
    let itext = (0u8..12).prop_flat_map(move |ty| {
        let (bits, signed) = INT_T[ty as usize];
        (gen::int_value(bits, signed, 10), 0usize..30, 0u8..4, any::<u8>()).prop_map(move |(v, lz, sign, delta)| {
            // numeral of v (+ a small delta in the last digit to cross the limits), leading zeros, sign variants
            let mut n = gen::ref_numeral(v, bits, signed, 10, false);
            let pos = if n[0] == b'-' { 1 } else { 0 };
            if delta % 4 == 0 && !n.is_empty() {
                let last = n.len() - 1;
                n[last] = b'0' + (delta / 4) % 10;
            }
            if delta % 7 == 0 {
                n.push(b'0' + delta % 10);
            }
            for _ in 0..lz {
                n.insert(pos, b'0');
            }
            match sign {
                1 if pos == 0 => n.insert(0, b'+'),
                2 => n.insert(0, b'-'),
                _ => {},
            }
            (ty, n)
        })
    });
    prop_oneof![
        4 => mutate(ftext(F64).boxed()).prop_map(|text| Item::ParseF { ty: 1, text }),
        3 => mutate(ftext(F32).boxed()).prop_map(|text| Item::ParseF { ty: 0, text }),
        4 => itext.prop_flat_map(move |(ty, n)| mutate(Just(n).boxed()).prop_map(move |text| Item::ParseI { ty, text })),
        2 => (0u8..12).prop_flat_map(|ty| { let (b, s) = INT_T[ty as usize]; gen::int_value(b, s, 10).prop_map(move |value| Item::WriteI { ty, value }) }),
        2 => gen::finite_bits(F64).prop_map(|bits| Item::WriteF { ty: 1, bits }),
        2 => gen::finite_bits(F32).prop_map(|bits| Item::WriteF { ty: 0, bits }),
    ]
    .boxed()
}

pub fn item_json(it: &Item) -> Value {
    match it {
        Item::ParseF { ty, text } => json!({"kind": "parse-float", "type": if *ty == 0 { "f32" } else { "f64" }, "text": show(text), "text_hex": hex(text)}),
        Item::ParseI { ty, text } => json!({"kind": "parse-int", "type": catalogue::INT_NAMES[*ty as usize], "text": show(text), "text_hex": hex(text)}),
        Item::WriteI { ty, value } => json!({"kind": "write-int", "type": catalogue::INT_NAMES[*ty as usize], "value": format!("{:#x}", value)}),
        Item::WriteF { ty, bits } => json!({"kind": "write-float", "type": if *ty == 0 { "f32" } else { "f64" }, "bits": format!("{:#x}", bits)}),
    }
}

pub fn item_from_json(v: &Value) -> Option<Item> {
    let ty_f = if v["type"].as_str() == Some("f32") { 0 } else { 1 };
    let ty_i = catalogue::INT_NAMES.iter().position(|n| Some(*n) == v["type"].as_str()).unwrap_or(3) as u8;
    let num = |k: &str| u128::from_str_radix(v[k].as_str().unwrap_or("0x0").trim_start_matches("0x"), 16).unwrap_or(0);
    Some(match v["kind"].as_str()? {
        "parse-float" => Item::ParseF { ty: ty_f, text: unhex(v["text_hex"].as_str().unwrap_or("")) },
        "parse-int" => Item::ParseI { ty: ty_i, text: unhex(v["text_hex"].as_str().unwrap_or("")) },
        "write-int" => Item::WriteI { ty: ty_i, value: num("value") },
        "write-float" => Item::WriteF { ty: ty_f, bits: num("bits") as u64 },
        _ => return None,
    })
}

macro_rules! int_dispatch {
    ($ty:expr, $t:ident, $body:expr) => {
        match $ty {
            0 => { type $t = u8; $body },
            1 => { type $t = u16; $body },
            2 => { type $t = u32; $body },
            3 => { type $t = u64; $body },
            4 => { type $t = u128; $body },
            5 => { type $t = usize; $body },
            6 => { type $t = i8; $body },
            7 => { type $t = i16; $body },
            8 => { type $t = i32; $body },
            9 => { type $t = i64; $body },
            10 => { type $t = i128; $body },
            _ => { type $t = isize; $body },
        }
    };
}

/// result class (0 parse, 1 integer bytes, 2 float bytes) and canonical result text
pub fn eval(it: &Item) -> (usize, String) {
    match it {
        Item::ParseF { ty, text } => {
            let s = if *ty == 0 { format!("{}|{}", parse_f::<f32>(text).show(), parse_partial_f::<f32>(text).show()) } else { format!("{}|{}", parse_f::<f64>(text).show(), parse_partial_f::<f64>(text).show()) };
            (0, s)
        },
        Item::ParseI { ty, text } => {
            let s = int_dispatch!(*ty, T, format!("{}|{}", iout::<T>(guard(|| lexical_core::parse::<T>(text)), text.len()).show(), ipout::<T>(guard(|| lexical_core::parse_partial::<T>(text))).show()));
            (0, s)
        },
        Item::WriteI { ty, value } => {
            let s = int_dispatch!(*ty, T, {
                // exactly the documented size for decimal output: a build that needs more panics here
                let mut buf = vec![0u8; <T as lexical_core::FormattedSize>::FORMATTED_SIZE_DECIMAL];
                match guard(|| lexical_core::write::<T>(<T as IntT>::from_u128(*value), &mut buf).to_vec()) {
                    Ok(b) => hex(&b),
                    Err(p) => format!("PANIC {p}"),
                }
            });
            (1, s)
        },
        Item::WriteF { ty, bits } => {
            let mut buf = vec![0u8; if *ty == 0 { <f32 as lexical_core::FormattedSize>::FORMATTED_SIZE_DECIMAL } else { <f64 as lexical_core::FormattedSize>::FORMATTED_SIZE_DECIMAL }];
            let r = if *ty == 0 { guard(|| lexical_core::write(f32::from_bits(*bits as u32), &mut buf).to_vec()) } else { guard(|| lexical_core::write(f64::from_bits(*bits), &mut buf).to_vec()) };
            match r {
                Ok(b) => (2, hex(&b)),
                Err(p) => (2, format!("PANIC {p}")),
            }
        },
    }
}

pub fn chunk_items(seed: u64, chunk: usize) -> Vec<Item> {
    sample_strategy(&strategy(), mix(seed, &["c16-stream", &chunk.to_string()]), CHUNK)
}

fn h128(acc: &mut (u64, u64), s: &str) {
    for b in s.bytes().chain(std::iter::once(0xff)) {
        acc.0 = (acc.0 ^ b as u64).wrapping_mul(0x100000001b3);
        acc.1 = splitmix(acc.1 ^ (b as u64).wrapping_mul(0x9E3779B97F4A7C15));
    }
}

pub fn run(ctx: &Ctx, rep: &mut Report) {
    rep.rule = "cases: one seeded stream of default-API cases that is identical in every build (generation depends only on the seed): \
        decimal float strings (midpoint-derived, grammar-random, fast-path, range edges, special-string variants, raw bytes; one-byte \
        mutations and trailing bytes) for f32/f64, integer strings (values near the limits with digit perturbation, leading zeros, \
        sign variants, mutations) for the 12 integer types, integer values and finite float bit patterns to write. Every case is \
        evaluated with parse + parse_partial or write; per chunk of 1024 cases one 128-bit hash per result class (parse results \
        incl. value bits / count / error kind+index; integer output bytes; float output bytes). run.py compares the chunk hashes \
        across all builds (float bytes only across non-compact builds) and dumps a differing chunk in both builds to name the first \
        differing case. In compact builds every float output must parse back to the same bits. non-trivial = every case \
        (distinct by chunk construction; counted as evaluations of distinct generated items)."
        .into();
    rep.assumptions = vec!["only the default STANDARD decimal API is compared, as the property states; this host's target only".into()];
    let n_chunks = ctx.n(1200, 60_000) as usize;
    let results = run_workers(ctx.threads, n_chunks, |ci| {
        let items = chunk_items(ctx.seed, ci);
        let mut acc = [(0xcbf29ce484222325u64, 1u64), (0xcbf29ce484222325u64, 2u64), (0xcbf29ce484222325u64, 3u64)];
        let mut bad: Vec<(String, Value)> = Vec::new();
        let mut sample = None;
        for it in &items {
            let (class, s) = eval(it);
            h128(&mut acc[class], &s);
            if s.starts_with("PANIC") || s.contains("PANIC(") {
                bad.push((format!("default API panicked: {s}"), item_json(it)));
            }
            if cfg!(feature = "compact") {
                if let Item::WriteF { ty, bits } = it {
                    let out = unhex(&s);
                    let back = if *ty == 0 { parse_f::<f32>(&out) } else { parse_f::<f64>(&out) };
                    if back != POut::Ok(*bits as u128, out.len()) {
                        bad.push((format!("compact float output {:?} does not parse back to the written value: {}", show(&out), back.show()), item_json(it)));
                    }
                }
            }
            if sample.is_none() {
                sample = Some(json!({"item": item_json(it), "result": s}));
            }
        }
        (acc.map(|a| format!("{:016x}{:016x}", a.0, a.1)), bad, sample)
    });
    let mut hashes: [Vec<String>; 3] = [Vec::new(), Vec::new(), Vec::new()];
    let mut l = Local::new();
    l.sample_cap = 12;
    for (h, bad, sample) in results {
        for c in 0..3 {
            hashes[c].push(h[c].clone());
        }
        for (msg, case) in bad {
            if rep.violations.len() < 5 {
                rep.violation("stream:self-check", msg, case);
            }
        }
        if let Some(s) = sample {
            l.sample(s);
        }
    }
    l.evaluations = (n_chunks * CHUNK) as u64;
    l.nontrivial_enum = (n_chunks * CHUNK) as u64;
    rep.add("stream:default-api", l);
    rep.extra.insert("c16_chunks".into(), json!(n_chunks));
    rep.extra.insert("c16_hashes".into(), json!({"parse": hashes[0], "int_write": hashes[1], "float_write": hashes[2]}));
}

/// `checks c16dump <chunk>`: one JSON line per case of the chunk
pub fn dump(seed: u64, chunk: usize) {
    for it in chunk_items(seed, chunk) {
        let (class, s) = eval(&it);
        println!("{}", json!({"class": class, "item": item_json(&it), "result": s}));
    }
}

/// replay inside one build: just evaluate (run.py compares two builds)
pub fn replay(_ctx: &Ctx, case: &Value) -> CaseResult {
    match item_from_json(case) {
        Some(it) => {
            let (_, s) = eval(&it);
            println!("C16-RESULT {s}");
            Ok(())
        },
        None => Err(Fail::new("cannot decode C16 case")),
    }
}
