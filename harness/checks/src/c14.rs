//! C14 — float write options control digits and notation exactly as documented.
//! Metamorphic oracle: the output under options is compared with the *default* output of the
//! same float (read with the strict reader), rounded in exact digit arithmetic.

use crate::c05::kind_of;
use crate::c06::do_write;
use crate::cat::cat;
use crate::lex::*;
use crate::wopts::{self, WOpts};
use catalogue::FLOAT_NAMES;
use proptest::prelude::*;
use serde_json::{json, Value};
use std::cmp::Ordering;
use vcore::big::Big;
use vcore::flt::FloatKind;
use vcore::gen;
use vcore::numtext::*;
use vcore::report::*;

#[derive(Clone, Debug)]
pub struct Job {
    pub entry: usize,
    pub ty: usize,
}

#[derive(Clone, Debug)]
pub struct Case {
    pub bits: u64,
    pub opts: WOpts,
}

pub fn case_json(j: &Job, c: &Case) -> Value {
    json!({"format": cat().entries[j.entry].name, "type": FLOAT_NAMES[j.ty], "bits": format!("{:#x}", c.bits), "options": c.opts.to_json()})
}

/// digits from the first non-zero digit to the last written digit, and the scientific exponent
/// in units of mantissa digits (None for zero)
struct Sci {
    written: Vec<u8>,
    stripped: Vec<u8>,
    sci: i64,
    /// number of fraction digits written (for the trim clause)
    frac_len: usize,
    int_len: usize,
}

fn sci_form(p: &NumParts, exp_radix: u32) -> Option<Sci> {
    let mut all: Vec<u8> = p.int.clone();
    all.extend_from_slice(&p.frac);
    let f = all.iter().position(|&d| d != 0)?;
    let written = all[f..].to_vec();
    let mut stripped = written.clone();
    while let Some(&0) = stripped.last() {
        stripped.pop();
    }
    let mut e: i64 = 0;
    for &d in &p.exp {
        e = e.saturating_mul(exp_radix as i64).saturating_add(d as i64);
    }
    if p.exp_neg {
        e = -e;
    }
    Some(Sci { written, stripped, sci: p.int.len() as i64 - 1 - f as i64 + e, frac_len: p.frac.len(), int_len: p.int.len() })
}

/// round a digit vector to `max` digits (half-even or truncate); returns (stripped digits, carried)
fn round_digits(d: &[u8], max: usize, radix: u32, truncate: bool) -> (Vec<u8>, bool) {
    if d.len() <= max {
        return (d.to_vec(), false);
    }
    let mut kept = d[..max].to_vec();
    let tail = &d[max..];
    let mut carried = false;
    if !truncate {
        // compare 2 * tail with radix^len(tail)
        let mut t2 = Big::from_digits(tail, radix);
        t2.mul_small(2);
        let half = Big::pow(radix as u64, tail.len() as u64);
        let up = match t2.cmp_big(&half) {
            Ordering::Greater => true,
            Ordering::Less => false,
            Ordering::Equal => kept[max - 1] % 2 == 1,
        };
        if up {
            let mut i = max;
            loop {
                if i == 0 {
                    kept.insert(0, 1);
                    kept.truncate(max);
                    carried = true;
                    break;
                }
                i -= 1;
                if (kept[i] as u32) + 1 < radix {
                    kept[i] += 1;
                    break;
                }
                kept[i] = 0;
            }
        }
    }
    while let Some(&0) = kept.last() {
        kept.pop();
    }
    (kept, carried)
}

fn is_tie(d: &[u8], max: usize, radix: u32) -> bool {
    if d.len() <= max {
        return false;
    }
    let mut t2 = Big::from_digits(&d[max..], radix);
    t2.mul_small(2);
    t2.cmp_big(&Big::pow(radix as u64, (d.len() - max) as u64)) == Ordering::Equal
}

/// Facts about a failing case used by the known-finding matchers.
#[derive(Default, Clone, Copy)]
struct Facts {
    carried: bool,
    rounds: bool,
    has_exp: bool,
    /// would the observed notation be right if the exponent of the *unrounded* float were used?
    notation_matches_unrounded: bool,
    pow2_or_mixed: bool,
    generic: bool,
    tiny_below_r200: bool,
    max_set: bool,
    /// rounding without a carry left zeros inside the digit budget (1.04 at 2 digits -> "1.0")
    zeros_kept: bool,
}

/// Structural matchers for recorded findings.
fn classify(f: &Facts, clause: &str) -> Option<&'static str> {
    if f.pow2_or_mixed && f.max_set && (clause == "max_significant_digits" || clause == "value" || clause == "notation" || clause == "min_significant_digits") {
        return Some("c14_pow2_max_digits_applied_to_bits");
    }
    if clause == "notation" && f.carried && f.notation_matches_unrounded {
        return Some("c14_notation_judged_before_rounding_carry");
    }
    // decimal writers (both notations): the zeros that rounding *without a carry* leaves inside the digit budget are
    // kept as written digits, so "1.0" / "1.0e20" is not trimmed; after a carry, and when one digit remains, it is
    if clause == "trim_floats" && f.rounds && !f.carried && f.zeros_kept && !f.generic && !f.pow2_or_mixed {
        return Some("c14_decimal_trim_not_applied_after_rounding");
    }
    if f.generic && !f.has_exp && f.tiny_below_r200 && (clause == "value" || clause == "max_significant_digits" || clause == "min_significant_digits") {
        return Some("c14_positional_output_truncated_at_buffer_size");
    }
    None
}

pub fn check(j: &Job, c: &Case, l: &mut Local) -> CaseResult {
    let e = &cat().entries[j.entry];
    let m = &cat().models[j.entry];
    let k: FloatKind = kind_of(j.ty);
    let rx = m.radices();
    let radix = rx.mant;
    l.eval(1);
    let mag = k.abs(c.bits);
    let o = &c.opts;
    let facts = std::cell::Cell::new(Facts::default());
    let mk = |clause: &str, what: String| {
        let msg = format!("{} {} [{}] write(bits {:#x}) options {}: [{}] {}", FLOAT_NAMES[j.ty], e.name, m.describe(), c.bits, o.to_json(), clause, what);
        match classify(&facts.get(), clause) {
            Some(kf) => Fail::known(msg, kf),
            None => Fail::new(msg),
        }
    };
    // default output of the same float (default digits / breaks / trim, same format)
    let d0 = WOpts::default_for(m);
    let out0 = do_write(j.entry, j.ty, c.bits, &d0.to_lexical()).map_err(|p| mk("default", format!("default write failed: {p}")))?;
    let out = do_write(j.entry, j.ty, c.bits, &o.to_lexical()).map_err(|p| mk("write", format!("failed: {p}")))?;
    let (p0, _) = read_number(&out0, rx, d0.point, d0.exponent, false).ok_or_else(|| mk("default", format!("default output {:?} is not a number", show(&out0))))?;
    // (5) configured punctuation: the strict reader only accepts the configured bytes
    let (p1, info) = read_number(&out, rx, o.point, o.exponent, false)
        .ok_or_else(|| mk("punctuation/shape", format!("output {:?} is not [sign]digits[point digits][exponent[sign]digits] with the configured decimal point {:?} and exponent character {:?}", show(&out), o.point as char, o.exponent as char)))?;
    let s0 = match sci_form(&p0, rx.exp) {
        Some(s) => s,
        None => {
            // the float is zero: the output denotes zero with the float's sign, and - the scientific exponent of
            // zero being 0, inside every valid pair of breaks, also under the reading that breaks are ignored for
            // mixed bases - exponent notation is used exactly when the format requires it
            l.class("zero");
            if mag != 0 {
                // a tiny subnormal whose generic-radix default output is 0.0: within the error bound of C07, not judged here
                l.class("default-output-zero-for-nonzero-float");
                return Ok(());
            }
            if sci_form(&p1, rx.exp).is_some() {
                return Err(mk("value", format!("output {:?} does not denote zero", show(&out))));
            }
            if p1.neg != k.is_negative(c.bits) {
                return Err(mk("value", format!("output {:?} has the wrong sign for this zero", show(&out))));
            }
            let required = m.required_exponent_notation && cfg!(feature = "format");
            if info.has_exp != required {
                return Err(mk("notation", format!("output {:?}: zero (scientific exponent 0) is written {} exponent notation although the format {}", show(&out), if info.has_exp { "in" } else { "without" }, if required { "requires it" } else { "does not require it" })));
            }
            l.nontrivial_hash(splitmix(c.bits ^ hash_bytes(&o.to_bytes()) ^ ((j.entry as u64) << 44) ^ ((j.ty as u64) << 62)));
            return Ok(());
        },
    };
    let max = if o.max_digits == 0 { usize::MAX } else { o.max_digits as usize };
    let (want, carried) = round_digits(&s0.stripped, max, radix, o.truncate);
    let want_sci = s0.sci + carried as i64;
    let mixed = rx.mant != rx.base;
    {
        let is_pow2 = matches!(radix, 2 | 4 | 8 | 16 | 32);
        let (mm, q) = k.decode(mag);
        let tiny = {
            // leading zeros + all significant digits no longer fit the ~231 character window
            let need = (64.0 / (radix as f64).log2()).ceil() as u64;
            let scaled = Big::from_u64(mm).mul(&Big::pow(radix as u64, 229 - need.min(60)));
            q < 0 && scaled.bit_len() <= (-q) as u64
        };
        let (pb, nb) = (if o.pos_break == 0 { 9 } else { o.pos_break as i64 }, if o.neg_break == 0 { -5 } else { o.neg_break as i64 });
        let unrounded_outside = s0.sci < nb || s0.sci > pb;
        let has_exp_out = out.contains(&o.exponent);
        facts.set(Facts {
            carried,
            rounds: s0.stripped.len() > max,
            has_exp: has_exp_out,
            notation_matches_unrounded: unrounded_outside == has_exp_out,
            // radix 2: one bit per digit, the finding (max digits applied to bits) cannot apply
            pow2_or_mixed: is_pow2 && radix != 2,
            generic: radix != 10 && !is_pow2,
            tiny_below_r200: tiny,
            max_set: o.max_digits != 0,
            zeros_kept: s0.stripped.len() > max && want.len() < max,
        });
    }
    // non-trivial rule
    let rounds = s0.stripped.len() > max;
    let (pos_b, neg_b) = (if o.pos_break == 0 { 9 } else { o.pos_break as i64 }, if o.neg_break == 0 { -5 } else { o.neg_break as i64 });
    if rounds || o.min_digits as usize > s0.stripped.len() || o.pos_break != 0 || o.neg_break != 0 {
        l.nontrivial_hash(splitmix(c.bits ^ hash_bytes(&o.to_bytes()) ^ ((j.entry as u64) << 44) ^ ((j.ty as u64) << 62)));
        if l.want_sample() {
            l.sample(json!({"case": case_json(j, c), "default_output": show(&out0), "output": show(&out)}));
        }
    }
    if rounds {
        l.class(if carried { "rounding:carry-into-new-digit" } else if is_tie(&s0.stripped, max, radix) && !o.truncate { "rounding:exact-tie" } else { "rounding:plain" });
    }
    let s1 = match sci_form(&p1, rx.exp) {
        Some(s) => s,
        None => return Err(mk("value", format!("output {:?} denotes zero but the default output is {:?}", show(&out), show(&out0)))),
    };
    if p1.neg != k.is_negative(c.bits) {
        return Err(mk("value", format!("output {:?} has the wrong sign", show(&out))));
    }
    // (1) digit counts
    if s1.stripped.len() > max {
        return Err(mk("max_significant_digits", format!("output {:?} has {} significant digits, more than max_significant_digits = {}", show(&out), s1.stripped.len(), max)));
    }
    // (1a) zero padding counts: with a digit limit, no more digits are written from the first significant one than the
    // limit - apart from the integer zeros of positional notation and the mandatory ".0" ("9.9996" at 4 digits is
    // "10.00", never "10.000")
    if o.max_digits != 0 && s1.written.len() > max.max(s1.int_len + 1) {
        return Err(mk(
            "max_significant_digits",
            format!("output {:?} has {} digits from the first significant digit (zero padding included), more than max_significant_digits = {}", show(&out), s1.written.len(), max),
        ));
    }
    // (2) value = default output rounded to max digits
    if s1.stripped != want {
        let f = |d: &[u8]| d.iter().map(|&x| digit_char(x) as char).collect::<String>();
        return Err(mk(
            "value",
            format!(
                "output {:?} has digits {} but the default output {:?} ({} digits) {} to {} digits is {}",
                show(&out),
                f(&s1.stripped),
                show(&out0),
                s0.stripped.len(),
                if o.truncate { "truncated" } else { "rounded half-to-even" },
                max,
                f(&want)
            ),
        ));
    }
    if !mixed && s1.sci != want_sci {
        return Err(mk("value", format!("output {:?} has scientific exponent {} but the default output {:?} rounded gives {}", show(&out), s1.sci, show(&out0), want_sci)));
    }
    // trim: an integral output loses exactly ".0"
    let trimmed_as_integer = o.trim && !info.has_point;
    if o.trim {
        l.class(if trimmed_as_integer { "trim:applied" } else { "trim:not-integral" });
    }
    if info.has_point && o.trim && p1.frac.iter().all(|&d| d == 0) && !info.has_exp {
        return Err(mk("trim_floats", format!("output {:?} is integral but the '.0' was not trimmed", show(&out))));
    }
    // exponent notation (decimal writers): a one-digit mantissa loses its ".0" too, unless the format wants a
    // fraction in front of every exponent or more digits are asked for
    if info.has_point && o.trim && info.has_exp && p1.frac.iter().all(|&d| d == 0) && p1.int.len() == 1 && !(m.no_exponent_without_fraction && cfg!(feature = "format")) {
        return Err(mk("trim_floats", format!("output {:?} has an integral one-digit mantissa but the '.0' was not trimmed", show(&out))));
    }
    if !info.has_point && !o.trim {
        return Err(mk("trim_floats", format!("output {:?} has no decimal point although trim_floats is off", show(&out))));
    }
    // (1b) min digits (zero padded) unless trimmed as an integer
    if o.min_digits != 0 && !trimmed_as_integer && s1.written.len() < o.min_digits as usize {
        return Err(mk("min_significant_digits", format!("output {:?} has {} digits from the first significant digit, fewer than min_significant_digits = {}", show(&out), s1.written.len(), o.min_digits)));
    }
    let _ = s1.frac_len;
    // (3) notation
    let forbidden = m.no_exponent_notation && cfg!(feature = "format");
    let required = m.required_exponent_notation && cfg!(feature = "format");
    if forbidden && info.has_exp {
        return Err(mk("notation", format!("output {:?} uses exponent notation although the format forbids it", show(&out))));
    }
    if required && !info.has_exp {
        return Err(mk("notation", format!("output {:?} lacks the exponent the format requires", show(&out))));
    }
    if !forbidden && !required && !mixed {
        let outside = |s: i64| s < neg_b || s > pos_b;
        let by_digits = outside(want_sci);
        let verdict: Option<bool> = if radix == 10 || !matches!(radix, 2 | 4 | 8 | 16 | 32) {
            Some(by_digits)
        } else {
            // power-of-two radices: the unit of the break is not documented (digits vs bits):
            // demand a notation only where both readings agree
            let (mm, q) = k.decode(mag);
            let sci_bits = q + (63 - mm.leading_zeros() as i64);
            if outside(sci_bits) == by_digits && outside(sci_bits + 1) == by_digits {
                Some(by_digits)
            } else {
                None
            }
        };
        match verdict {
            Some(want_exp) => {
                l.class(if want_exp { "notation:exponent" } else { "notation:positional" });
                if info.has_exp != want_exp {
                    return Err(mk(
                        "notation",
                        format!(
                            "output {:?}: scientific exponent {} with breaks ({}, {}) calls for {} notation",
                            show(&out),
                            want_sci,
                            neg_b,
                            pos_b,
                            if want_exp { "exponent" } else { "positional" }
                        ),
                    ));
                }
            },
            None => l.class("notation:abstain(pow2 radix, digit/bit readings differ)"),
        }
    }
    Ok(())
}

pub fn jobs() -> Vec<Job> {
    let c = cat();
    let mut v = Vec::new();
    let mut seen = std::collections::HashSet::new();
    for g in ["core", "write"] {
        for i in c.group(g) {
            let e = &c.entries[i];
            let m = &c.models[i];
            if !e.is_valid || !m.float_radix_pair_ok() {
                continue;
            }
            if let Ok(f) = std::env::var("VERIF_FORMATS") {
                if !e.name.contains(&f) {
                    continue;
                }
            }
            // one exponent-digit radix per mantissa radix is enough here
            if g == "core" && m.exponent_radix() != m.mantissa_radix() && m.mantissa_radix() == m.exponent_base() {
                continue;
            }
            for ty in 0..2 {
                if e.wf[ty].is_some() && seen.insert((e.packed, ty)) {
                    v.push(Job { entry: i, ty });
                }
            }
        }
    }
    v
}

fn value_strategy(k: FloatKind, radix: u32) -> BoxedStrategy<u64> {
    // short radix-r digit strings d1 d2 .. dn * r^e (exact ties and 9.99..-type patterns in the output radix)
    let r = radix as u8;
    let pattern = (proptest::collection::vec(prop_oneof![3 => 0u8..r, 2 => Just(r - 1), 1 => Just(r / 2)], 1..8), -12i32..20, prop_oneof![Just(0u8), Just(1u8), Just(2u8)]).prop_map(move |(ds, e, tail)| {
        // value = 0.d1d2..dn(tail) * r^e computed in f64, then cast
        let mut v = 0f64;
        let mut scale = 1f64 / radix as f64;
        for d in &ds {
            v += *d as f64 * scale;
            scale /= radix as f64;
        }
        match tail {
            1 => v += (radix / 2) as f64 * scale,
            2 => v += (radix - 1) as f64 * scale,
            _ => {},
        }
        let v = v * (radix as f64).powi(e);
        if k.p == 53 {
            v.to_bits()
        } else {
            (v as f32).to_bits() as u64
        }
    });
    prop_oneof![50 => gen::finite_mag(k), 40 => pattern.prop_map(move |b| b.min(k.max_finite_bits()) & !k.sign_mask()), 1 => Just(0u64)].boxed()
}

pub fn run(ctx: &Ctx, rep: &mut Report) {
    rep.rule = "cases: per compiled writer format (radix 10, every power-of-two and generic radix, mixed bases, and the \
        sign/notation flag variants incl. no/required exponent notation) and float type: finite values (structured bit patterns; \
        short digit strings in the output radix incl. x.5-type ties, (r-1)(r-1).. carry patterns, leading fractional zeros; a fifth of the cases couple a (r-1)..(r-1)h value with max digits <= the run length and min in {0, max, below}, so that rounding carries into a new digit) x \
        generated options (max/min significant digits 1..64, breaks +-1..20, +-21..400, +-1000, Round/Truncate, trim, custom \
        decimal point / exponent characters). Oracle (metamorphic): the output is read with a strict reader using the configured \
        punctuation and compared with the default output of the same float rounded in exact digit arithmetic (half-even / \
        truncate, carry adjusts the exponent): significant digits <= max, digits and scientific exponent equal, >= min digits \
        unless trimmed as an integer, trim removes exactly '.0', exponent notation iff required or the (rounded) scientific \
        exponent is outside the breaks and never when forbidden. non-trivial = rounding happens, or padding happens, or a break \
        is customised; distinct = distinct (format, type, bits, options)."
        .into();
    rep.assumptions = vec![
        "for power-of-two radices the unit of the exponent breaks is not documented (digits vs bits): a notation is only demanded where both readings agree; mixed-base formats are exempt from the notation clause".into(),
        "the base of the rounding relation is the library's own default output (C02/C06/C07 judge that output)".into(),
    ];
    let js = jobs();
    let per = ctx.n((2_500_000 / js.len().max(1) as u64).max(1500), 400_000);
    run_prop_jobs(
        rep,
        ctx,
        "options:generated",
        &js,
        per,
        |j| {
            let m = &cat().models[j.entry];
            let k = kind_of(j.ty);
            let radix = m.mantissa_radix();
            (value_strategy(k, radix), wopts::strategy(m, false), any::<bool>(), (any::<u8>(), 1usize..8, -12i32..20, any::<u8>(), any::<u8>())).prop_map(move |(mut mag, mut opts, neg, (sel, n, e, a, b))| {
                // specials are C15's business: keep the strings configured
                opts.nan = 0;
                opts.inf = 0;
                if sel < 56 {
                    // coupled stream: n digits (r-1) followed by a high digit, rounded to at most n digits, so that the
                    // rounding carries into a new leading digit (0.9996 -> 1.000, 99.97 -> 100.0); min is 0, max, or below
                    let mut v = 0f64;
                    let mut scale = 1f64 / radix as f64;
                    for _ in 0..n {
                        v += (radix - 1) as f64 * scale;
                        scale /= radix as f64;
                    }
                    v += (radix / 2 + (a as u32 >> 5) % (radix - radix / 2)) as f64 * scale;
                    let v = v * (radix as f64).powi(e);
                    mag = (if k.p == 53 { v.to_bits() } else { (v as f32).to_bits() as u64 }).min(k.max_finite_bits()) & !k.sign_mask();
                    opts.max_digits = 1 + (a as u32 & 31) % n as u32;
                    opts.min_digits = match b % 3 {
                        0 => 0,
                        1 => opts.max_digits,
                        _ => 1 + (b as u32 >> 2) % opts.max_digits,
                    };
                    opts.truncate = b >= 240;
                }
                Case { bits: if neg { mag | k.sign_mask() } else { mag }, opts }
            })
        },
        case_json,
        check,
    );
}

pub fn replay(_ctx: &Ctx, case: &Value) -> CaseResult {
    let mut l = Local::new();
    let fmt = case["format"].as_str().unwrap_or("STANDARD");
    let entry = cat().idx(fmt).ok_or_else(|| Fail::new(format!("format {fmt} not compiled in this configuration")))?;
    let ty = if case["type"].as_str() == Some("f32") { 0 } else { 1 };
    let bits = u64::from_str_radix(case["bits"].as_str().unwrap_or("0x0").trim_start_matches("0x"), 16).unwrap_or(0);
    check(&Job { entry, ty }, &Case { bits, opts: WOpts::from_json(&case["options"]) }, &mut l)
}
