//! Generated write-float options (shared by C08, C09, C14, C17).

use crate::c15::pool;
use proptest::prelude::*;
use serde_json::{json, Value};
use std::num::{NonZeroI32, NonZeroUsize};
use vcore::fmodel::FormatModel;

#[derive(Clone, Debug, PartialEq, Eq)]
pub struct WOpts {
    pub max_digits: u32, // 0 = None
    pub min_digits: u32, // 0 = None
    pub pos_break: i32,  // 0 = None
    pub neg_break: i32,  // 0 = None
    pub truncate: bool,
    pub trim: bool,
    pub exponent: u8,
    pub point: u8,
    /// pool indices; usize::MAX = None
    pub nan: usize,
    pub inf: usize,
}

impl WOpts {
    pub fn default_for(m: &FormatModel) -> WOpts {
        WOpts { max_digits: 0, min_digits: 0, pos_break: 0, neg_break: 0, truncate: false, trim: false, exponent: crate::c05::exp_char_for(m), point: b'.', nan: 0, inf: 0 }
    }
    pub fn to_lexical(&self) -> lexical_core::WriteFloatOptions {
        use lexical_core::write_float_options::RoundMode;
        let p = pool();
        lexical_core::WriteFloatOptions::builder()
            .max_significant_digits(NonZeroUsize::new(self.max_digits as usize))
            .min_significant_digits(NonZeroUsize::new(self.min_digits as usize))
            .positive_exponent_break(NonZeroI32::new(self.pos_break))
            .negative_exponent_break(NonZeroI32::new(self.neg_break))
            .round_mode(if self.truncate { RoundMode::Truncate } else { RoundMode::Round })
            .trim_floats(self.trim)
            .exponent(self.exponent)
            .decimal_point(self.point)
            .nan_string(p.nan.get(self.nan).copied())
            .inf_string(p.inf.get(self.inf).copied())
            .build_unchecked()
    }
    pub fn is_default_digits(&self) -> bool {
        self.max_digits == 0 && self.min_digits == 0
    }
    pub fn to_json(&self) -> Value {
        json!({"max_digits": self.max_digits, "min_digits": self.min_digits, "pos_break": self.pos_break, "neg_break": self.neg_break, "truncate": self.truncate,
               "trim": self.trim, "exponent": self.exponent, "point": self.point, "nan": if self.nan == usize::MAX { -1 } else { self.nan as i64 }, "inf": if self.inf == usize::MAX { -1 } else { self.inf as i64 }})
    }
    pub fn from_json(v: &Value) -> WOpts {
        let idx = |x: &Value| match x.as_i64() {
            Some(i) if i >= 0 => i as usize,
            _ => usize::MAX,
        };
        WOpts {
            max_digits: v["max_digits"].as_u64().unwrap_or(0) as u32,
            min_digits: v["min_digits"].as_u64().unwrap_or(0) as u32,
            pos_break: v["pos_break"].as_i64().unwrap_or(0) as i32,
            neg_break: v["neg_break"].as_i64().unwrap_or(0) as i32,
            truncate: v["truncate"].as_bool().unwrap_or(false),
            trim: v["trim"].as_bool().unwrap_or(false),
            exponent: v["exponent"].as_u64().unwrap_or(101) as u8,
            point: v["point"].as_u64().unwrap_or(46) as u8,
            nan: idx(&v["nan"]),
            inf: idx(&v["inf"]),
        }
    }
    pub fn to_bytes(&self) -> Vec<u8> {
        let mut v = Vec::new();
        v.extend_from_slice(&self.max_digits.to_le_bytes());
        v.extend_from_slice(&self.min_digits.to_le_bytes());
        v.extend_from_slice(&self.pos_break.to_le_bytes());
        v.extend_from_slice(&self.neg_break.to_le_bytes());
        v.push(self.truncate as u8);
        v.push(self.trim as u8);
        v.push(self.exponent);
        v.push(self.point);
        v.extend_from_slice(&(self.nan.min(0xffff) as u16).to_le_bytes());
        v.extend_from_slice(&(self.inf.min(0xffff) as u16).to_le_bytes());
        v
    }
    pub fn from_bytes(b: &[u8]) -> WOpts {
        let u = |i: usize| u32::from_le_bytes([b[i], b[i + 1], b[i + 2], b[i + 3]]);
        let idx = |i: usize| {
            let x = u16::from_le_bytes([b[i], b[i + 1]]);
            if x == 0xffff {
                usize::MAX
            } else {
                x as usize
            }
        };
        WOpts { max_digits: u(0), min_digits: u(4), pos_break: u(8) as i32, neg_break: u(12) as i32, truncate: b[16] != 0, trim: b[17] != 0, exponent: b[18], point: b[19], nan: idx(20), inf: idx(22) }
    }
}

/// valid punctuation bytes for a format (never digits of either radix, signs, format punctuation)
pub fn valid_punct(m: &FormatModel) -> Vec<u8> {
    let maxr = m.mantissa_radix().max(m.exponent_radix());
    let mut v = Vec::new();
    for c in [b'.', b',', b'e', b'E', b'^', b'p', b'P', b'~', b';', b'\t', b'@', b'\'', b' ', b'd', b'q', b'z', b'Z', b'_', b'#', b'$'] {
        if vcore::numtext::digit_val(c, maxr).is_some() || c == b'+' || c == b'-' {
            continue;
        }
        if [m.digit_separator, m.base_prefix, m.base_suffix].contains(&c) {
            continue;
        }
        v.push(c);
    }
    v
}

/// `extreme` adds breaks across the whole i32 range and hundreds of digits (C09); otherwise the
/// ranges documented for C14 (digits 1..64, breaks within the exponent range).
pub fn strategy(m: &FormatModel, extreme: bool) -> BoxedStrategy<WOpts> {
    let punct = valid_punct(m);
    let p2 = punct.clone();
    let np = pool().nan.len();
    let ni = pool().inf.len();
    let digits = move || {
        if extreme {
            prop_oneof![4 => Just(0u32), 5 => 1u32..=64, 2 => 65u32..=600, 1 => 601u32..=2000].boxed()
        } else {
            prop_oneof![4 => Just(0u32), 8 => 1u32..=64].boxed()
        }
    };
    let pos_break = move || {
        if extreme {
            prop_oneof![4 => Just(0i32), 4 => 1i32..=20, 2 => 290i32..=330, 1 => 1000i32..=1100, 1 => Just(i32::MAX), 1 => Just(i32::MAX - 1), 1 => 1i32..=i32::MAX].boxed()
        } else {
            prop_oneof![4 => Just(0i32), 6 => 1i32..=20, 2 => 21i32..=400, 1 => 1000i32..=1100].boxed()
        }
    };
    let neg_break = move || {
        if extreme {
            prop_oneof![4 => Just(0i32), 4 => -20i32..=-1, 2 => -330i32..=-290, 1 => -1100i32..=-1000, 1 => Just(i32::MIN), 1 => Just(i32::MIN + 1), 1 => i32::MIN..=-1].boxed()
        } else {
            prop_oneof![4 => Just(0i32), 6 => -20i32..=-1, 2 => -400i32..=-21, 1 => -1100i32..=-1000].boxed()
        }
    };
    (
        (digits(), digits()),
        (pos_break(), neg_break()),
        any::<bool>(),
        prop_oneof![3 => Just(false), 1 => Just(true)],
        (any::<u16>(), any::<u16>(), prop_oneof![3 => Just(true), 1 => Just(false)]),
        (prop_oneof![5 => (0..np), 1 => Just(usize::MAX)], prop_oneof![5 => (0..ni), 1 => Just(usize::MAX)]),
    )
        .prop_map(move |((a, b), (pb, nb), truncate, trim, (pi, ei, default_punct), (nan, inf))| {
            // min <= max when both are set
            let (max_digits, min_digits) = if a != 0 && b != 0 { (a.max(b), a.min(b)) } else { (a, b) };
            let default_exp = if p2.contains(&b'e') { b'e' } else { b'^' };
            let mut exponent = if default_punct { default_exp } else { p2[vcore::gen::pick(ei, p2.len())] };
            let mut point = if default_punct { b'.' } else { p2[vcore::gen::pick(pi, p2.len())] };
            if !p2.contains(&point) {
                point = p2[0];
            }
            if exponent == point || exponent.eq_ignore_ascii_case(&point) {
                exponent = *p2.iter().find(|&&c| !c.eq_ignore_ascii_case(&point)).unwrap();
            }
            WOpts { max_digits, min_digits, pos_break: pb, neg_break: nb, truncate, trim, exponent, point, nan, inf }
        })
        .boxed()
}
