//! C13 — digit separators never change a value and are accepted only where enabled.

use crate::c01::JUNK;
use crate::c05::{float_call_partial, kind_of};
use crate::c12::{case_json, check_one, expect_for, for_each_string, jobs, lex_complete, lexical_opts, opt_model_for, Expect, Job, Ty};
use crate::cat::cat;
use crate::lex::*;
use proptest::prelude::*;
use serde_json::{json, Value};
use vcore::fmodel::FormatModel;
use vcore::gen;
use vcore::numtext::Radices;
use vcore::refparse::*;
use vcore::report::*;

const SEP_FLAG_MASK: u128 = 0x1fff << 32;
const SEP_BYTE_MASK: u128 = 0xff << 64;

/// catalogue entry with the same packed value minus separator flags and separator byte
fn counterpart(entry: usize, ty: Ty) -> Option<usize> {
    let c = cat();
    let want = c.entries[entry].packed & !(SEP_FLAG_MASK | SEP_BYTE_MASK);
    // several catalogue entries can share a packed value: take one that has a parser for the type
    (0..c.entries.len()).find(|&i| c.entries[i].packed == want && c.entries[i].is_valid && has_type(i, ty))
}

pub fn lex_partial(entry: usize, ty: Ty, text: &[u8], o: &OptModel) -> POut {
    let e = &cat().entries[entry];
    match ty {
        Ty::Float(fi) => {
            let (_, pfp) = e.pf[fi].expect("float parser compiled");
            float_call_partial(pfp, text, &lexical_opts(o), kind_of(fi))
        },
        Ty::Int(ii) => {
            let (_, pip) = e.pi[ii].expect("int parser compiled");
            let opts = lexical_core::ParseIntegerOptions::new();
            match guard(|| pip(text, &opts)) {
                Ok(Ok((v, n))) => POut::Ok(v, n),
                Ok(Err(e)) => err_out(&e),
                Err(p) => POut::Panic(p),
            }
        },
    }
}

fn has_type(entry: usize, ty: Ty) -> bool {
    let e = &cat().entries[entry];
    match ty {
        Ty::Float(fi) => e.pf[fi].is_some(),
        Ty::Int(ii) => e.pi[ii].is_some(),
    }
}

/// Narrow structural matchers for known findings of this property.
fn classify(_m: &FormatModel, _ty: Ty, _text: &[u8], _relation: &str) -> Option<&'static str> {
    None
}

/// All relations of the property on one input.
pub fn check_input(entry: usize, ty: Ty, text: &[u8], l: &mut Local) -> CaseResult {
    let m = &cat().models[entry];
    let e = &cat().entries[entry];
    let o = opt_model_for(m);
    let sep = m.digit_separator;
    // a byte that can never continue a number in this format: the symbol whose digit value equals the
    // radix (':' after '9', 'G' after 'F' - junk that an off-by-one digit test takes for a digit) unless
    // the format uses it as punctuation
    let junk = {
        let c = vcore::gen::radix_symbol(m.mantissa_radix().max(m.exponent_radix()));
        let used = [sep, o.decimal_point, o.exponent, m.base_prefix, m.base_suffix];
        let clash = used.iter().any(|&u| u != 0 && (u == c || (c.is_ascii_alphabetic() && u.eq_ignore_ascii_case(&c))));
        if !clash {
            c
        } else if sep == b'$' {
            b'!'
        } else {
            b'$'
        }
    };
    let nsep = text.iter().filter(|&&c| c == sep).count();
    // formats that do not require digits accept digit-less inputs (the recorded C12 finding on
    // empty strings / bare signs); the separator relations say nothing about those: abstain
    if !m.required_mantissa_digits && !text.iter().any(|c| c.is_ascii_alphanumeric() && *c != o.exponent) {
        l.class("abstain:no-digits-in-a-digits-optional-format");
        return Ok(());
    }
    // the documentation says nothing about a separator that touches the base prefix letter (between
    // the '0' and the letter, or directly after the letter: is the '0' a digit of the component?);
    // the float and the integer parser read it differently. Not judged.
    if m.base_prefix != 0 && nsep > 0 {
        let is_p = |c: u8| if m.case_sensitive_base_prefix { c == m.base_prefix } else { c.eq_ignore_ascii_case(&m.base_prefix) };
        let touches = text.windows(2).any(|w| (w[0] == sep && is_p(w[1])) || (is_p(w[0]) && w[1] == sep));
        if touches {
            l.class("abstain:separator-touching-the-base-prefix");
            return Ok(());
        }
    }
    let got = lex_complete(entry, ty, text, &o);
    l.eval(1);
    if std::env::var_os("VERIF_DEBUG").is_some() {
        eprintln!("c13 debug: {} {} {:?} -> {} counterpart {:?}", e.name, ty.name(), show(text), got.show(), counterpart(entry, ty).map(|i| cat().entries[i].name));
    }
    let mk = |relation: &str, detail: String| {
        let msg = format!("{} {} [{}] input {:?}: {} — {}", ty.name(), e.name, m.describe(), show(text), relation, detail);
        match classify(m, ty, text, relation) {
            Some(k) => Fail::known(msg, k),
            None => Fail::new(msg),
        }
    };
    // digit-count bucket / adjacency for the non-triviality rule
    let sep_adjacent_digit = text.windows(2).any(|w| (w[0] == sep && w[1].is_ascii_alphanumeric()) || (w[1] == sep && w[0].is_ascii_alphanumeric()));
    let long_component = text.split(|&c| !(c.is_ascii_alphanumeric() || c == sep)).any(|comp| comp.iter().filter(|c| c.is_ascii_alphanumeric()).count() >= 8);
    if sep_adjacent_digit || long_component {
        l.nontrivial_bytes(((entry as u64) << 8) | match ty { Ty::Float(i) => i as u64, Ty::Int(i) => 16 + i as u64 }, text);
        if l.want_sample() {
            l.sample(case_json(entry, ty, text));
        }
    }
    if nsep > 0 {
        l.class("input:with-separator");
        // relation (a)+(b): acceptance exactly where the classifier enables every separator run,
        // and the value is the value of the digits (reference grammar with separators)
        let exp = expect_for(text, m, &o, ty);
        let ok = match (&exp, &got) {
            (Expect::Reject(_), POut::Err(..)) => true,
            (Expect::Value(v), POut::Ok(g, _)) => v == g,
            (Expect::IntOverflow, POut::Err(k, _)) => k == "Overflow" || k == "Underflow",
            _ => false,
        };
        if !ok {
            let d = match &exp {
                Expect::Reject(w) => format!("lexical gives {} but the documented separator rules reject it ({w})", got.show()),
                Expect::Value(v) => format!("lexical gives {} but every separator is in an enabled position and the digits denote bits {v:#x}", got.show()),
                Expect::IntOverflow => format!("lexical gives {} but the digits overflow the type", got.show()),
            };
            return Err(mk("(a/b) separators accepted exactly where enabled, value unchanged", d));
        }
        // relation (a) directly on the implementation: accepted with v => stripped input accepted with v
        if let POut::Ok(v, _) = &got {
            let stripped = strip_separators(text, sep);
            let g2 = lex_complete(entry, ty, &stripped, &o);
            if !matches!(&g2, POut::Ok(v2, _) if v2 == v) {
                return Err(mk("(a) deleting the separators must keep acceptance and value", format!("with separators: {}; without: {}", got.show(), g2.show())));
            }
            l.class("accepted-with-separator");
        }
        // partial parser: whatever prefix it consumes is itself an accepted input, so the same
        // rules apply to that prefix: every separator in it is enabled and the value is the
        // value of its digits; and deleting the separators of the prefix keeps the value
        let mut t2 = text.to_vec();
        t2.push(junk);
        if let POut::Ok(v, n) = lex_partial(entry, ty, &t2, &o) {
            let prefix_has_digit = n <= text.len() && text[..n].iter().any(|c| c.is_ascii_alphanumeric() && *c != o.exponent);
            if n > 0 && n <= text.len() && text[..n].contains(&sep) && (m.required_mantissa_digits || prefix_has_digit) {
                let prefix = &text[..n];
                match expect_for(prefix, m, &o, ty) {
                    Expect::Value(ev) if ev == v => {},
                    other => {
                        return Err(mk(
                            "(a/b, partial) the consumed prefix must only contain enabled separators and have the value of its digits",
                            format!("partial consumed {:?} as bits {v:#x}; the documented rules give {:?}", show(prefix), other),
                        ));
                    },
                }
                let stripped = strip_separators(prefix, sep);
                let g2 = lex_complete(entry, ty, &stripped, &o);
                if !matches!(&g2, POut::Ok(v2, _) if *v2 == v) {
                    return Err(mk(
                        "(a, partial) deleting the separators of the consumed prefix must keep acceptance and value",
                        format!("partial consumed {:?} as bits {v:#x}; without separators: {}", show(prefix), g2.show()),
                    ));
                }
            }
        }
    } else {
        l.class("input:separator-free");
        // relation (c): identical treatment by the separator-free counterpart format
        if let Some(cp) = counterpart(entry, ty) {
            {
                let g2 = lex_complete(cp, ty, text, &o);
                if g2 != got {
                    return Err(mk(
                        "(c) separator-free input must be treated identically by the separator-free counterpart format",
                        format!("{}: {}; counterpart {}: {}", e.name, got.show(), cat().entries[cp].name, g2.show()),
                    ));
                }
                let mut t2 = text.to_vec();
                t2.push(junk);
                let p1 = lex_partial(entry, ty, &t2, &o);
                let p2 = lex_partial(cp, ty, &t2, &o);
                // integers without any digit: the partial parser's Ok((0, n)) for sign-only /
                // digit-less prefixes is the recorded C11 finding and depends on how the format
                // counts digits; the separator relations say nothing about digit-less inputs
                let no_digit_before = |p: &POut| match p {
                    POut::Ok(_, n) | POut::Err(_, Some(n)) => !t2[..(*n).min(t2.len())].iter().any(|c| c.is_ascii_alphanumeric()),
                    _ => false,
                };
                let digitless_int = matches!(ty, Ty::Int(_)) && no_digit_before(&p1) && no_digit_before(&p2);
                // recorded finding (exact shape only): the separator format reports Empty(i) where its
                // counterpart reports Ok((0, i)) for an input without any digit in front of position i
                let empty_vs_zero = matches!((&p1, &p2), (POut::Err(k, Some(i)), POut::Ok(0, n)) if k == "Empty" && i == n);
                if p1 != p2 && digitless_int && empty_vs_zero {
                    let msg = format!(
                        "{} {} [{}] input {:?}: (c, partial) separator-free input must be treated identically by the separator-free counterpart format — {}: {}; counterpart {}: {}",
                        ty.name(), e.name, m.describe(), show(text), e.name, p1.show(), cat().entries[cp].name, p2.show()
                    );
                    return Err(Fail::known(msg, "c13_digitless_partial_integer_empty_with_separators"));
                } else if p1 != p2 {
                    return Err(mk(
                        "(c, partial) separator-free input must be treated identically by the separator-free counterpart format",
                        format!("{}: {}; counterpart {}: {}", e.name, p1.show(), cat().entries[cp].name, p2.show()),
                    ));
                }
                l.class("compared-with-counterpart");
            }
        } else {
            // no counterpart compiled: fall back to the reference grammar
            check_one(entry, ty, text, l)?;
        }
    }
    Ok(())
}

fn sep_alphabet(m: &FormatModel, ty: Ty, o: &OptModel) -> Vec<u8> {
    let top = vcore::numtext::digit_char((m.mantissa_radix() - 1) as u8);
    match ty {
        Ty::Float(_) => {
            let mut v = vec![b'-', b'+', b'0', b'1', m.digit_separator, o.decimal_point, o.exponent, b'$'];
            // mixed radices: a digit of one radix that is not a digit of the other
            let (r, xr) = (m.mantissa_radix(), m.exponent_radix());
            if r != xr {
                v.push(vcore::numtext::digit_char((r.max(xr) - 1) as u8));
            }
            v
        },
        Ty::Int(_) => vec![b'-', b'+', b'0', b'1', top, m.digit_separator, b'$'],
    }
}

#[derive(Clone, Debug)]
pub struct InsCase {
    pub text: Vec<u8>,
}

/// generated: accepted-looking separator-free numbers with separator runs inserted anywhere
fn insertion_strategy(m: &FormatModel, ty: Ty, o: &OptModel) -> BoxedStrategy<InsCase> {
    let sep = m.digit_separator;
    let rx = m.radices();
    let base: BoxedStrategy<Vec<u8>> = match ty {
        Ty::Float(fi) => {
            let k = kind_of(fi);
            prop_oneof![
                4 => gen::midpoint_text(k, rx, o.decimal_point, o.exponent).prop_map(|(t, _)| t),
                3 => gen::grammar_text(rx, o.decimal_point, o.exponent).prop_map(|(t, _)| t),
                2 => gen::fastpath_text(k, rx, o.decimal_point, o.exponent).prop_map(|(t, _)| t),
            ]
            .boxed()
        },
        Ty::Int(ii) => {
            let bits = catalogue::INT_BITS[ii];
            let signed = catalogue::INT_SIGNED[ii];
            let radix = rx.mant;
            (gen::int_value(bits, signed, radix), 0usize..30).prop_map(move |(v, lz)| {
                let mut n = gen::ref_numeral(v, bits, signed, radix, false);
                if lz > 0 {
                    let pos = if n[0] == b'-' { 1 } else { 0 };
                    for _ in 0..lz {
                        n.insert(pos, b'0');
                    }
                }
                n
            })
            .boxed()
        },
    };
    (base, proptest::collection::vec((any::<u16>(), 1usize..4), 0..5))
        .prop_map(move |(mut t, ins)| {
            // keep the inputs from exploding in size: the interesting paths need <= ~900 digits
            if t.len() > 1200 {
                t.truncate(1200);
            }
            for (pos, run) in ins {
                let p = gen::pick(pos, t.len() + 1);
                for _ in 0..run {
                    t.insert(p, sep);
                }
            }
            InsCase { text: t }
        })
        .boxed()
}

pub fn run(ctx: &Ctx, rep: &mut Report) {
    rep.rule = "cases: for every valid separator format of the sep group (14 uniform modes, 42 single-component modes, 60 mixed \
        triples, special/radix-16/prefix/syntax combinations) x {f64 (+f32), u32/i64}: (i) all strings of length <= L (quick 6, \
        thorough 7) over {-,+,0,1,separator,point,exponent,space} (ints: {-,+,0,1,top digit,separator,space}); (ii) generated \
        numbers (midpoint-derived, grammar-random up to 1200 bytes, fast-path, integer edge values) with 0-4 separator runs of \
        length 1-3 inserted at arbitrary positions. Relations: (a/b) lexical accepts an input containing separators exactly when \
        the documented classifier enables every run, with the value of the digits; (a) accepted => separator-stripped input \
        accepted with the same value, also for the partial parser (count reduced by the deleted separators); (c) separator-free \
        inputs are treated identically (value, error kind, index; complete and partial) by the separator-free counterpart format. \
        non-trivial = a separator adjacent to a digit, or a component with >= 8 digits; distinct = distinct (format, type, text)."
        .into();
    rep.assumptions = vec![
        "separator classifier transcribed from docs/DigitSeparators.md; a run in a component without digits counts as leading and trailing".into(),
        "relation (c) needs the counterpart format to be compiled; otherwise the reference grammar is used".into(),
    ];
    let js: Vec<Job> = jobs(&["sep"], true);
    if js.is_empty() {
        return;
    }
    let max_len = if ctx.thorough() { 7 } else { 6 };
    run_enum(rep, ctx, "enumerated:short-strings", js.len(), |ji, l, viol| {
        let j = &js[ji];
        let m = &cat().models[j.entry];
        let o = opt_model_for(m);
        let alpha = sep_alphabet(m, j.ty, &o);
        let mut nviol = 0;
        for_each_string(&alpha, max_len, |s| {
            if let Err(f) = check_input(j.entry, j.ty, s, l) {
                if filter_known(ctx, l, &f) {
                    viol.push((f.message, case_json(j.entry, j.ty, s)));
                    nviol += 1;
                    return nviol < max_viol().saturating_sub(2).max(1);
                }
            }
            true
        });
    });
    rep.exhaustive.push(format!("all strings of length <= {max_len} over the 8-byte (floats) / 7-byte (ints) separator alphabet x {} (format, type) pairs", js.len()));
    let per = ctx.n(3000, 60_000);
    run_prop_jobs(
        rep,
        ctx,
        "generated:separator-insertion",
        &js,
        per,
        |j| {
            let m = &cat().models[j.entry];
            insertion_strategy(m, j.ty, &opt_model_for(m))
        },
        |j, c| case_json(j.entry, j.ty, &c.text),
        |j, c, l| check_input(j.entry, j.ty, &c.text, l),
    );
    let _ = (JUNK, Radices::DECIMAL);
}

pub fn replay(_ctx: &Ctx, case: &Value) -> CaseResult {
    let mut l = Local::new();
    let fmt = case["format"].as_str().unwrap_or("STANDARD");
    let entry = match cat().idx(fmt) {
        Some(i) => i,
        None => return Err(Fail::new(format!("format {fmt} not compiled in this configuration"))),
    };
    let ty = Ty::from_name(case["type"].as_str().unwrap_or("f64"));
    check_input(entry, ty, &unhex(case["text_hex"].as_str().unwrap_or("")), &mut l)
}

#[allow(dead_code)]
fn unused(_: Value) -> Value {
    json!(null)
}
