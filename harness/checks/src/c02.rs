//! C02 — default float -> decimal output round-trips exactly and (non-compact) is shortest/closest.

use crate::lex::*;
use proptest::prelude::*;
use serde_json::{json, Value};
use vcore::big::Big;
use vcore::flt::*;
use vcore::gen;
use vcore::numtext::*;
use vcore::report::*;

pub fn case_json<F: FloatT>(bits: u64) -> Value {
    json!({"type": F::NAME, "bits": format!("{:#x}", bits), "approx": format!("{:e}", fapprox::<F>(bits))})
}

fn fapprox<F: FloatT>(bits: u64) -> f64 {
    if F::KIND.p == 53 {
        f64::from_bits(bits)
    } else {
        f32::from_bits(bits as u32) as f64
    }
}

/// significant digits (no leading/trailing zeros) and decimal exponent: value = int(sig) * 10^e10
pub fn sig_and_exp(p: &NumParts, exp_radix: u32) -> (Vec<u8>, i64) {
    let mut d: Vec<u8> = p.int.clone();
    d.extend_from_slice(&p.frac);
    let mut e: i64 = 0;
    for &x in &p.exp {
        e = e.saturating_mul(exp_radix as i64).saturating_add(x as i64);
    }
    if p.exp_neg {
        e = -e;
    }
    e -= p.frac.len() as i64;
    let first = d.iter().position(|&x| x != 0).unwrap_or(d.len());
    let mut d: Vec<u8> = d[first..].to_vec();
    while let Some(&0) = d.last() {
        d.pop();
        e += 1;
    }
    (d, e)
}

pub struct Written {
    pub bytes: Vec<u8>,
}

pub fn write_default<F: FloatT>(v: F) -> Result<Vec<u8>, String> {
    let size = <F as lexical_core::FormattedSize>::FORMATTED_SIZE_DECIMAL;
    let mut buf = vec![0xA5u8; size + 32];
    let r = guard(|| {
        let base = buf.as_ptr() as usize;
        let out = lexical_core::write(v, &mut buf[..size]);
        (out.as_ptr() as usize - base, out.len())
    })?;
    if r.0 != 0 {
        return Err(format!("returned slice at offset {}", r.0));
    }
    if buf[size..].iter().any(|&b| b != 0xA5) {
        return Err("wrote past FORMATTED_SIZE_DECIMAL".into());
    }
    Ok(buf[..r.1].to_vec())
}

pub fn check_bits<F: FloatT>(bits: u64, l: &mut Local) -> CaseResult {
    let k = F::KIND;
    debug_assert!(k.is_finite(bits));
    let v = F::from_bits64(bits);
    l.eval(1);
    let out = match write_default::<F>(v) {
        Ok(o) => o,
        Err(p) => return Err(Fail::new(format!("write::<{}>({:#x}) failed: {p}", F::NAME, bits))),
    };
    let fail = |what: &str| Fail::new(format!("write::<{}>(bits {:#x} ~ {:e}) = {:?}: {what}", F::NAME, bits, fapprox::<F>(bits), show(&out)));
    // (1) syntax of the default format: -?D+.D+(e-?D+)?
    let (parts, info) = match read_number(&out, Radices::DECIMAL, b'.', b'e', false) {
        Some(x) => x,
        None => return Err(fail("not of the form [-]digits.digits[e[-]digits]")),
    };
    if out.iter().any(|&b| b >= 0x80) {
        return Err(fail("non-ASCII byte"));
    }
    if out[0] == b'+' || (info.has_exp && info.exp_has_sign && !parts.exp_neg) {
        return Err(fail("unexpected '+' sign"));
    }
    if !info.has_point || parts.int.is_empty() || parts.frac.is_empty() {
        return Err(fail("default output must have digits on both sides of the point"));
    }
    if parts.int.len() > 1 && parts.int[0] == 0 {
        return Err(fail("redundant leading zero"));
    }
    if parts.frac.len() > 1 && *parts.frac.last().unwrap() == 0 {
        return Err(fail("redundant trailing zero"));
    }
    if info.has_exp && (parts.exp.len() > 1 && parts.exp[0] == 0) {
        return Err(fail("leading zero in exponent"));
    }
    let neg = k.is_negative(bits);
    if parts.neg != neg {
        return Err(fail("sign of the output differs from the sign bit (incl. -0.0)"));
    }
    let mag = k.abs(bits);
    let (sig, e10) = sig_and_exp(&parts, 10);
    if mag == 0 {
        if !sig.is_empty() {
            return Err(fail("zero written with non-zero digits"));
        }
        l.class("zero");
        return Ok(());
    }
    // (2) round trip by exact interval membership (no lexical parser involved)
    let value = match exact_value(&parts, Radices::DECIMAL) {
        Exact::Val(r) => r,
        _ => return Err(fail("output denotes zero or an out-of-range number")),
    };
    if !in_rounding_interval(k, mag, &value) {
        return Err(fail("the written decimal does not round back to this float"));
    }
    // (3) digit count
    let max_digits = if k.p == 53 { 17 } else { 9 };
    if sig.len() > max_digits {
        return Err(fail(&format!("{} significant digits (max {max_digits})", sig.len())));
    }
    // the lexical parser must read it back too (attributed to C01 if only this leg fails)
    let back = parse_f::<F>(&out);
    if back != POut::Ok(bits as u128, out.len()) {
        return Err(fail(&format!("lexical parse of the output gives {}", back.show())));
    }
    let (m, q) = k.decode(mag);
    let small_int = q <= 0 && -q < 64 && (m & ((1u64 << ((-q) as u32)) - 1)) == 0 && (m >> ((-q) as u32)) < 10_000_000;
    let nontrivial = !small_int;
    if nontrivial {
        l.nontrivial_hash(splitmix(bits ^ ((k.p as u64) << 56)));
        l.class(&format!("digits:{}", sig.len()));
        if m == (1u64 << (k.p - 1)) {
            l.class("shorter-interval(mantissa=2^(p-1))");
        }
        if l.want_sample() {
            l.sample(json!({"type": F::NAME, "bits": format!("{:#x}", bits), "output": show(&out)}));
        }
    }
    // (4) shortest and closest — non-compact builds only
    if cfg!(feature = "compact") {
        return Ok(());
    }
    let d = Big::from_digits(&sig, 10);
    // common scale: A(X) = X * 10^max(e10,0) * 2^max(-q,0); V = m * 2^max(q,0) * 10^max(-e10,0)
    let p10 = Big::pow(10, e10.unsigned_abs());
    let scale_x = |x: &Big| -> Big {
        let mut a = x.clone();
        if e10 > 0 {
            a = a.mul(&p10);
        }
        if q < 0 {
            a = a.shl((-q) as u64);
        }
        a
    };
    let mut vv = Big::from_u64(m);
    if q > 0 {
        vv = vv.shl(q as u64);
    }
    if e10 < 0 {
        vv = vv.mul(&p10);
    }
    let cand_rat = |x: &Big| -> Rat {
        if e10 >= 0 {
            Rat::new(x.mul(&p10), Big::from_u64(1))
        } else {
            Rat::new(x.clone(), p10.clone())
        }
    };
    let dist_out = scale_x(&d).abs_diff(&vv);
    // shortest: no multiple of 10^(e10+1) in the interval
    if sig.len() > 1 {
        let mut lower = d.clone();
        let rem = lower.divrem_small(10); // lower = floor(d/10)
        debug_assert!(rem != 0);
        let lo_c = lower.mul_small_new(10);
        let mut hi_c = lo_c.clone();
        hi_c.add_small(10);
        for c in [&lo_c, &hi_c] {
            if !c.is_zero() && in_rounding_interval(k, mag, &cand_rat(c)) {
                let is_endpoint = {
                    // candidate sits exactly on the boundary of the rounding interval
                    let r = cand_rat(c);
                    r.cmp_m_q(2 * m as u128 + 1, q - 1) == std::cmp::Ordering::Equal || r.cmp_m_q(2 * m as u128 - 1, q - 1) == std::cmp::Ordering::Equal
                };
                let msg = format!(
                    "not shortest: {}e{} has fewer digits and also rounds to this float{}",
                    c.to_decimal_string().trim_end_matches('0'),
                    e10 + (c.to_decimal_string().len() - c.to_decimal_string().trim_end_matches('0').len()) as i64,
                    if is_endpoint { " (it is an endpoint of the rounding interval; mantissa is even so the endpoint is included)" } else { "" }
                );
                return Err(fail(&msg));
            }
        }
    }
    // closest among same-length candidates
    let mut up = d.clone();
    up.add_small(1);
    let down = d.sub(&Big::from_u64(1));
    for c in [&up, &down] {
        if c.is_zero() {
            continue;
        }
        let dist_c = scale_x(c).abs_diff(&vv);
        if dist_c < dist_out && in_rounding_interval(k, mag, &cand_rat(c)) {
            return Err(fail(&format!("not closest: {}e{} is nearer to the float with the same number of digits", c.to_decimal_string(), e10)));
        }
    }
    // secondary oracle: ryu's shortest digits must match (never deciding)
    let ryu_digits: String = if k.p == 53 {
        ryu::Buffer::new().format_finite(f64::from_bits(mag)).chars().filter(|c| c.is_ascii_digit() || *c == 'e').collect()
    } else {
        ryu::Buffer::new().format_finite(f32::from_bits(mag as u32)).chars().filter(|c| c.is_ascii_digit() || *c == 'e').collect()
    };
    let ryu_sig: String = ryu_digits.split('e').next().unwrap_or("").trim_start_matches('0').trim_end_matches('0').to_string();
    let ours: String = sig.iter().map(|&x| (b'0' + x) as char).collect();
    if ryu_sig != ours {
        l.class("ORACLE-DISCREPANCY:ryu-digits");
    }
    Ok(())
}

/// All short decimals d*10^e that are exactly the midpoint of two adjacent floats; returns the
/// magnitudes of both neighbours.
pub fn endpoint_class(k: FloatKind, d_limit: u64) -> Vec<u64> {
    let mut out = Vec::new();
    let lo = 1u128 << k.p; // 2m+1 in [2^p, 2^(p+1))
    let hi = 1u128 << (k.p + 1);
    let mut p5: u128 = 1;
    for e in 0..40u32 {
        if p5 >= hi {
            break;
        }
        // odd d_odd with d_odd * 5^e in [lo, hi)
        let mut d_odd = ((lo + p5 - 1) / p5) | 1;
        while d_odd * p5 < hi && d_odd < d_limit as u128 {
            let t = d_odd * p5; // = 2m+1
            let m = ((t - 1) / 2) as u64;
            // midpoint = t * 2^(e + j) for any j >= 0 (d = d_odd * 2^j); q - 1 = e + j
            let mut j = 0u32;
            while (d_odd << j) < d_limit as u128 && j < 40 {
                let q = (e + j) as i64 + 1;
                // float m * 2^q: biased exponent = q + p - 1 + bias
                let biased = q + (k.p as i64 - 1) + k.bias();
                if biased >= 1 && (biased as u64) < k.max_exp_field() {
                    let bits = ((biased as u64) << (k.p - 1)) | (m & k.mant_mask());
                    out.push(bits);
                    if bits + 1 < k.inf_bits() {
                        out.push(bits + 1);
                    }
                }
                j += 1;
            }
            d_odd += 2;
        }
        p5 *= 5;
    }
    out.sort();
    out.dedup();
    out
}

fn bits_strategy(k: FloatKind) -> BoxedStrategy<u64> {
    // exactly representable short decimals d * 10^e
    let short_dec = (1u64..100_000, 0u32..23).prop_map(move |(d, e)| {
        let v = (d as f64) * 10f64.powi(e as i32);
        if k.p == 53 {
            v.to_bits()
        } else {
            (v as f32).to_bits() as u64
        }
    });
    let small_ints = (0u64..(1u64 << 24)).prop_map(move |i| if k.p == 53 { (i as f64).to_bits() } else { (i as f32).to_bits() as u64 });
    prop_oneof![10 => gen::finite_bits(k), 1 => short_dec, 1 => small_ints].boxed()
}

fn run_for<F: FloatT>(ctx: &Ctx, rep: &mut Report) {
    let k = F::KIND;
    let n = ctx.n(3_000_000, 100_000_000);
    run_prop(rep, ctx, &format!("{}:generated", F::NAME), n, || bits_strategy(k), |b| case_json::<F>(*b), |b, l| check_bits::<F>(*b & (k.sign_mask() | (k.sign_mask() - 1)), l));
    // every binade x structured mantissas (covers every Dragonbox / Grisu table row)
    let n_exp = k.max_exp_field() as usize; // exponent fields 0..max-1
    let per = ctx.n(48, 3000);
    run_enum(rep, ctx, &format!("{}:binade-sweep", F::NAME), n_exp, |e, l, viol| {
        let mb = k.p - 1;
        let mm = k.mant_mask();
        let mut mants: Vec<u64> = vec![0, 1, 2, 3, mm, mm - 1, mm >> 1, (mm >> 1) + 1, 1u64 << (mb - 1)];
        for b in 0..mb {
            mants.push(1u64 << b);
            mants.push(mm ^ (1u64 << b));
        }
        let mut h = mix(ctx.seed, &["c02-binade", F::NAME, &e.to_string()]);
        for _ in 0..per {
            h = splitmix(h);
            mants.push(h & mm);
            // trailing-zero heavy
            h = splitmix(h);
            let tz = (h % mb as u64) as u32;
            mants.push(((h >> 8) & mm) >> tz << tz);
        }
        for m in mants {
            let bits = ((e as u64) << mb) | m;
            if bits >= k.inf_bits() {
                continue;
            }
            for b in [bits, bits | k.sign_mask()] {
                if let Err(f) = check_bits::<F>(b, l) {
                    if filter_known(ctx, l, &f) {
                        viol.push((f.message, case_json::<F>(b)));
                        return;
                    }
                }
            }
        }
    });
    // endpoint class: short decimals that are exact midpoints, both neighbours
    let eps = endpoint_class(k, if ctx.thorough() { 10_000_000 } else { 100_000 });
    let chunk = 512usize;
    let n_chunks = (eps.len() + chunk - 1) / chunk;
    let eps_ref = &eps;
    run_enum(rep, ctx, &format!("{}:midpoint-short-decimals", F::NAME), n_chunks.max(1), |ci, l, viol| {
        for &bits in eps_ref.iter().skip(ci * chunk).take(chunk) {
            l.class("endpoint-class");
            if let Err(f) = check_bits::<F>(bits, l) {
                if filter_known(ctx, l, &f) {
                    viol.push((f.message, case_json::<F>(bits)));
                    return;
                }
            }
        }
    });
    rep.exhaustive.push(format!("{}: all floats adjacent to a decimal d*10^e (d < {}) that is exactly a midpoint: {} floats", F::NAME, if ctx.thorough() { 10_000_000 } else { 100_000 }, eps.len()));
}

/// full f32 enumeration (thorough tier)
fn all_f32(ctx: &Ctx, rep: &mut Report) {
    let n_chunks = 4096usize;
    run_enum(rep, ctx, "f32:all-bit-patterns", n_chunks, |ci, l, viol| {
        let per = (1u64 << 32) / n_chunks as u64;
        let mut nt = 0u64;
        for raw in ci as u64 * per..(ci as u64 + 1) * per {
            if !F32.is_finite(raw) {
                continue;
            }
            // bypass hashing for the exhaustive sweep: count instead
            let before = l.nontrivial.len();
            if let Err(f) = check_bits::<f32>(raw, l) {
                if filter_known(ctx, l, &f) {
                    viol.push((f.message, case_json::<f32>(raw)));
                    return;
                }
            }
            if l.nontrivial.len() > before {
                nt += 1;
                if l.nontrivial.len() > 4096 {
                    l.nontrivial.clear();
                }
            }
        }
        l.nontrivial.clear();
        l.classes.retain(|k, _| !k.starts_with("digits:") || true);
        l.nontrivial_enum += nt;
    });
    rep.exhaustive.push("f32: all 2^32 bit patterns (finite ones checked)".into());
}

pub fn run(ctx: &Ctx, rep: &mut Report) {
    rep.rule = "cases: finite f32/f64 bit patterns from (a) structured generators (uniform, exponent x mantissa patterns, \
        subnormals, edges, short exact decimals, small integers), (b) every binade x structured mantissas (all table rows), \
        (c) the enumerated class of floats adjacent to a short decimal that is exactly a rounding midpoint, (d) thorough: all \
        2^32 f32 patterns. Oracle: the bytes are read by an independent strict reader; the written rational must lie in the \
        float's exact round-to-nearest-even interval; sign/-0.0; <= 17/9 digits; non-compact: no shorter decimal in the interval \
        and no same-length decimal closer; lexical's own parser must read the bytes back. non-trivial = finite, non-zero and \
        not an integer below 10^7; distinct = distinct (type, bits)."
        .into();
    rep.assumptions = vec!["exact interval arithmetic of vcore::flt (self-tested against std at setup); ryu only as a non-deciding cross-check".into()];
    run_for::<f64>(ctx, rep);
    run_for::<f32>(ctx, rep);
    // the exhaustive f32 pass (2^32 values, ~10-20 min of 16 cores each) runs in the three configurations the property
    // names - one per float-writer back-end (Dragonbox, Grisu) plus the full-feature build; the other thorough
    // configurations share those back-ends and get the generated / enumerated parts only
    if ctx.thorough() && matches!(ctx.config.as_str(), "default" | "compact" | "radix+format") {
        all_f32(ctx, rep);
    }
}

pub fn replay(_ctx: &Ctx, case: &Value) -> CaseResult {
    let mut l = Local::new();
    let bits = u64::from_str_radix(case["bits"].as_str().unwrap_or("0x0").trim_start_matches("0x"), 16).unwrap_or(0);
    match case["type"].as_str() {
        Some("f32") => check_bits::<f32>(bits, &mut l),
        _ => check_bits::<f64>(bits, &mut l),
    }
}
