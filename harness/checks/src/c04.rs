//! C04 — string -> integer is exact, with exact overflow detection.

use crate::cat::cat;
use crate::lex::*;
use catalogue::{INT_BITS, INT_NAMES, INT_SIGNED};
use proptest::prelude::*;
use serde_json::{json, Value};
use vcore::big::Big;
use vcore::gen;
use vcore::numtext::{digit_char, digit_val};
use vcore::report::*;

#[derive(Clone, Debug)]
pub struct Case {
    pub ty: usize,
    pub entry: usize,
    pub text: Vec<u8>,
    pub no_multi_digit: bool,
    pub class: &'static str,
}

pub fn case_json(c: &Case) -> Value {
    json!({"type": INT_NAMES[c.ty], "format": cat().entries[c.entry].name, "text": show(&c.text), "text_hex": hex(&c.text),
           "no_multi_digit": c.no_multi_digit, "class": c.class})
}

/// Reference verdicts: the set of acceptable outcomes for (complete, partial).
#[derive(Clone, Debug, PartialEq, Eq)]
pub struct RefInt {
    pub complete: Vec<POut>,
    pub partial: Vec<POut>,
    /// number of digits scanned
    pub ndigits: usize,
    pub near_limit: bool,
}

pub fn ref_int(bytes: &[u8], bits: u32, signed: bool, radix: u32) -> RefInt {
    let len = bytes.len();
    let mut i = 0;
    let mut neg = false;
    if i < len && bytes[i] == b'+' {
        i = 1;
    } else if i < len && bytes[i] == b'-' && signed {
        neg = true;
        i = 1;
    }
    let start = i;
    if i == len {
        let e = POut::Err("Empty".into(), Some(i));
        return RefInt { complete: vec![e.clone()], partial: vec![e], ndigits: 0, near_limit: false };
    }
    let limit: u128 = if neg { 1u128 << (bits - 1) } else { gen::int_max(bits, signed) };
    let mut acc: u128 = 0;
    let mut j = i;
    while j < len {
        let d = match digit_val(bytes[j], radix) {
            Some(d) => d as u128,
            None => break,
        };
        let next = acc.checked_mul(radix as u128).and_then(|x| x.checked_add(d));
        match next {
            Some(x) if x <= limit => acc = x,
            _ => {
                let e = POut::Err(if neg { "Underflow" } else { "Overflow" }.into(), Some(j));
                return RefInt { complete: vec![e.clone()], partial: vec![e], ndigits: j - start + 1, near_limit: true };
            },
        }
        j += 1;
    }
    let ndigits = j - start;
    let value: u128 = gen::wrap_int(if neg { acc.wrapping_neg() } else { acc }, bits, signed);
    let near_limit = limit - acc <= 2;
    if ndigits == 0 {
        // sign-or-nothing followed by a non-digit: the statement's two clauses both apply
        return RefInt {
            complete: vec![POut::Err("InvalidDigit".into(), Some(j)), POut::Err("Empty".into(), Some(j))],
            partial: vec![POut::Ok(0, j), POut::Err("Empty".into(), Some(j))],
            ndigits,
            near_limit,
        };
    }
    if j == len {
        RefInt { complete: vec![POut::Ok(value, len)], partial: vec![POut::Ok(value, len)], ndigits, near_limit }
    } else {
        RefInt { complete: vec![POut::Err("InvalidDigit".into(), Some(j))], partial: vec![POut::Ok(value, j)], ndigits, near_limit }
    }
}

pub fn check_case(c: &Case, l: &mut Local) -> CaseResult {
    let e = &cat().entries[c.entry];
    let m = &cat().models[c.entry];
    let (pc, pp) = match e.pi[c.ty] {
        Some(x) => x,
        None => return Err(Fail::new(format!("no integer parser compiled for {} {}", e.name, INT_NAMES[c.ty]))),
    };
    let radix = m.mantissa_radix();
    let bits = INT_BITS[c.ty];
    let signed = INT_SIGNED[c.ty];
    let r = ref_int(&c.text, bits, signed, radix);
    let opts = lexical_core::ParseIntegerOptions::builder().no_multi_digit(c.no_multi_digit).build_unchecked();
    let text = &c.text[..];
    let got_c = match guard(|| pc(text, &opts)) {
        Ok(Ok(v)) => POut::Ok(v, text.len()),
        Ok(Err(e)) => err_out(&e),
        Err(p) => POut::Panic(p),
    };
    let got_p = match guard(|| pp(text, &opts)) {
        Ok(Ok((v, n))) => POut::Ok(v, n),
        Ok(Err(e)) => err_out(&e),
        Err(p) => POut::Panic(p),
    };
    l.eval(2);
    l.class(c.class);
    // overflow_digits(T, r) as documented: conservative digit count that cannot overflow
    let od = if radix <= 16 { (bits as usize / 8) * 2 - signed as usize } else { bits as usize / 8 };
    let err_late = matches!(&r.complete[0], POut::Err(_, Some(i)) if *i > 0);
    if r.ndigits + 1 >= od || err_late {
        l.nontrivial_bytes(((c.ty as u64) << 8) | radix as u64 | ((c.no_multi_digit as u64) << 20), text);
        if l.want_sample() {
            l.sample(case_json(c));
        }
    }
    if r.near_limit {
        l.class("near-MIN/MAX(+-2)");
    }
    match &got_c {
        POut::Ok(..) => l.class("outcome:ok"),
        POut::Err(k, _) => l.class(&format!("outcome:{k}")),
        POut::Panic(_) => l.class("outcome:panic"),
    }
    let name = INT_NAMES[c.ty];
    let show_set = |s: &Vec<POut>| s.iter().map(|x| x.show()).collect::<Vec<_>>().join(" or ");
    if !r.complete.contains(&got_c) {
        return Err(Fail::new(format!(
            "{name} radix {radix} ({}) parse({:?}, no_multi_digit={}) = {}, reference scan says {}",
            e.name,
            show(text),
            c.no_multi_digit,
            got_c.show(),
            show_set(&r.complete)
        )));
    }
    if !r.partial.contains(&got_p) {
        return Err(Fail::new(format!(
            "{name} radix {radix} ({}) parse_partial({:?}, no_multi_digit={}) = {}, reference scan says {}",
            e.name,
            show(text),
            c.no_multi_digit,
            got_p.show(),
            show_set(&r.partial)
        )));
    }
    // indices never exceed the input length
    for g in [&got_c, &got_p] {
        match g {
            POut::Ok(_, n) if *n > text.len() => return Err(Fail::new(format!("{name}: consumed count {n} > len {}", text.len()))),
            POut::Err(_, Some(i)) if *i > text.len() => return Err(Fail::new(format!("{name}: error index {i} > len {}", text.len()))),
            _ => {},
        }
    }
    Ok(())
}

/// default API (STANDARD): must agree with the same reference, and with `str::parse`
pub fn check_default<T: IntT + std::str::FromStr>(text: &[u8], l: &mut Local) -> CaseResult {
    let r = ref_int(text, T::BITS, T::SIGNED, 10);
    let got_c = iout::<T>(guard(|| lexical_core::parse::<T>(text)), text.len());
    let got_p = ipout::<T>(guard(|| lexical_core::parse_partial::<T>(text)));
    l.eval(2);
    if !r.complete.contains(&got_c) {
        return Err(Fail::new(format!("{} parse({:?}) = {}, reference says {}", T::NAME, show(text), got_c.show(), r.complete[0].show())));
    }
    if !r.partial.contains(&got_p) {
        return Err(Fail::new(format!("{} parse_partial({:?}) = {}, reference says {}", T::NAME, show(text), got_p.show(), r.partial[0].show())));
    }
    // std differential on acceptance + value (std accepts exactly [+-]digits)
    if let Ok(s) = std::str::from_utf8(text) {
        let std_ok = s.parse::<T>().ok().map(|v| v.to_u128());
        let lex_ok = if let POut::Ok(v, _) = got_c { Some(v) } else { None };
        if std_ok != lex_ok {
            return Err(Fail::new(format!("{} parse({:?}) = {} but str::parse gives {:?}", T::NAME, show(text), got_c.show(), std_ok)));
        }
    }
    if r.ndigits >= 2 {
        l.nontrivial_bytes(T::BITS as u64 * 2 + T::SIGNED as u64, text);
    }
    Ok(())
}

// ------------------------------------------------------------------------------------------------
// generators

fn digits_of(v: &Big, radix: u32, lower: bool) -> Vec<u8> {
    let d = v.to_digits(radix);
    if d.is_empty() {
        return vec![b'0'];
    }
    d.iter()
        .map(|&x| {
            let c = digit_char(x);
            if lower {
                c.to_ascii_lowercase()
            } else {
                c
            }
        })
        .collect()
}

fn text_strategy(bits: u32, signed: bool, radix: u32) -> BoxedStrategy<(Vec<u8>, &'static str)> {
    let r = radix as u8;
    let od = if radix <= 16 { (bits as usize / 8) * 2 - signed as usize } else { bits as usize / 8 };
    // magnitude strings near the limits
    let near = (any::<bool>(), 0u8..5, any::<bool>()).prop_map(move |(neg, d, lower)| {
        let limit = if neg && signed { Big::from_u128(1u128 << (bits - 1)) } else { Big::from_u128(gen::int_max(bits, signed)) };
        let mut v = limit.clone();
        match d {
            0 => v = v.sub(&Big::from_u64(2)),
            1 => v = v.sub(&Big::from_u64(1)),
            2 => {},
            3 => v.add_small(1),
            _ => v.add_small(2),
        }
        (neg, digits_of(&v, radix, lower), "near-limit")
    });
    let pow_edges = (any::<bool>(), 0u32..130, 0u8..3, any::<bool>()).prop_map(move |(neg, k, d, lower)| {
        let mut v = Big::pow(radix as u64, (k % (bits + 2)) as u64);
        match d {
            0 => v = v.sub(&Big::from_u64(1)),
            1 => {},
            _ => v.add_small(1),
        }
        (neg, digits_of(&v, radix, lower), "radix-power-edge")
    });
    let random_len = (any::<bool>(), prop_oneof![
        3 => 1usize..=4,
        4 => od.saturating_sub(2).max(1)..=od + 3,
        2 => 1usize..=45,
        1 => 100usize..140,
    ], any::<bool>())
        .prop_flat_map(move |(neg, n, lower)| {
            proptest::collection::vec(0u8..r, n).prop_map(move |ds| {
                let t: Vec<u8> = ds.iter().map(|&x| if lower { digit_char(x).to_ascii_lowercase() } else { digit_char(x) }).collect();
                (neg, t, "random-digits")
            })
        });
    let body = prop_oneof![4 => near, 3 => pow_edges, 5 => random_len];
    // decoration: sign, leading zeros, injected invalid byte, trailing junk
    (
        body,
        prop_oneof![6 => Just(0u8), 2 => Just(1u8), 1 => Just(2u8), 1 => Just(3u8)], // sign style for positives
        prop_oneof![6 => Just(0usize), 2 => 1usize..4, 1 => 4usize..60],            // leading zeros
        prop_oneof![5 => Just(None), 3 => (any::<u16>(), any::<u8>()).prop_map(Some)], // inject byte at position
        prop_oneof![5 => Just(None), 1 => any::<u8>().prop_map(Some)],              // trailing byte
    )
        .prop_map(move |((neg, digits, class), sign, lz, inject, trail)| {
            let mut t = Vec::new();
            if neg {
                t.push(b'-');
            } else {
                match sign {
                    1 => t.push(b'+'),
                    2 => t.extend_from_slice(b"++"),
                    3 => t.extend_from_slice(b"+-"),
                    _ => {},
                }
            }
            t.extend(std::iter::repeat(b'0').take(lz));
            t.extend_from_slice(&digits);
            let mut class = class;
            if let Some((pos, b)) = inject {
                let p = gen::pick(pos, t.len() + 1);
                // bias injected bytes toward near-digit characters
                let b = match b % 8 {
                    0 => b'/',
                    1 => b':',
                    2 => b'@',
                    3 => b'`',
                    4 => digit_char((radix as u8).min(35)), // first non-digit letter/digit of the radix
                    5 => digit_char((radix as u8).min(35)).to_ascii_lowercase(),
                    6 => 0x80 | b,
                    _ => b,
                };
                if p < t.len() {
                    t[p] = b;
                } else {
                    t.push(b);
                }
                class = "injected-byte";
            }
            if let Some(b) = trail {
                t.push(b);
            }
            (t, class)
        })
        .boxed()
}

fn raw_bytes() -> BoxedStrategy<(Vec<u8>, &'static str)> {
    proptest::collection::vec(any::<u8>(), 0..24).prop_map(|v| (v, "raw-bytes")).boxed()
}

macro_rules! default_api {
    ($rep:ident, $ctx:ident, $n:expr, $($t:ident)*) => {$(
        run_prop($rep, $ctx, &format!("default-api:{}", stringify!($t)), $n,
            || prop_oneof![8 => text_strategy(<$t as IntT>::BITS, <$t as IntT>::SIGNED, 10), 1 => raw_bytes()],
            |(t, class)| json!({"type": stringify!($t), "text": show(t), "text_hex": hex(t), "class": class}),
            |(t, _), l| check_default::<$t>(t, l));
    )*};
}

pub fn run(ctx: &Ctx, rep: &mut Report) {
    rep.rule = "cases: (a) exhaustive: all strings of length <= 4 over a 10-byte alphabet (signs, 3 digits of the radix incl. the \
        largest, a letter digit in both cases / first non-digit, '/', ':', the largest digit with its high bit set) for u8/i8/u16/i16 x every radix; (b) generated: \
        digit strings at MAX-2..MAX+2 / MIN-2..MIN+2, r^k-1..r^k+1, random lengths around overflow_digits and SWAR block sizes, \
        with sign variants, leading zeros, one injected near-digit byte and trailing junk, x 12 types x every radix x \
        no_multi_digit on/off; (c) default API vs the same reference and str::parse. Oracle: left-to-right reference scan with a \
        checked u128 accumulator; complete and partial verdicts incl. error kind and index. non-trivial = at least \
        overflow_digits-1 digits or an error at index > 0; distinct = distinct (type, radix, option, text)."
        .into();
    rep.assumptions = vec![
        "for 'optional sign then a non-digit byte' the statement's Empty and InvalidDigit clauses both apply: InvalidDigit(i)/Empty(i) are accepted for the complete parser and Ok((0,i))/Empty(i) for the partial parser in exactly that shape".into(),
    ];
    let radixes = cat().radix_entries();
    // (a) exhaustive short strings for small types
    let small: [usize; 4] = [0, 6, 1, 7];
    let chunks: Vec<(usize, u32, usize, bool)> = small
        .iter()
        .flat_map(|&t| radixes.iter().flat_map(move |&(r, ei)| [false, true].into_iter().map(move |nmd| (t, r, ei, nmd))))
        .collect();
    let max_len = if ctx.thorough() { 5 } else { 4 };
    run_enum(rep, ctx, "exhaustive:short-strings", chunks.len(), |ci, l, viol| {
        let (ty, radix, entry, nmd) = chunks[ci];
        let top = digit_char((radix - 1) as u8);
        let mid = digit_char(((radix - 1) / 2).max(1) as u8);
        let nondigit = if radix < 36 { digit_char(radix as u8) } else { b'[' };
        let mut alpha: Vec<u8> = vec![b'+', b'-', b'0', mid, top, top.to_ascii_lowercase(), nondigit, b'/', b':', top | 0x80];
        alpha.dedup();
        let a = alpha.len();
        let mut total = 0usize;
        for len in 0..=max_len {
            let n = a.pow(len as u32);
            for mut idx in 0..n {
                let mut t = Vec::with_capacity(len);
                for _ in 0..len {
                    t.push(alpha[idx % a]);
                    idx /= a;
                }
                let c = Case { ty, entry, text: t, no_multi_digit: nmd, class: "short-string" };
                total += 1;
                if let Err(f) = check_case(&c, l) {
                    if filter_known(ctx, l, &f) {
                        viol.push((f.message, case_json(&c)));
                        return;
                    }
                }
            }
        }
        let _ = total;
    });
    rep.exhaustive.push(format!("all strings of length <= {max_len} over a 10-byte per-radix alphabet x u8/i8/u16/i16 x {} radices x no_multi_digit on/off", radixes.len()));
    // (b) generated
    let n = ctx.n(600_000, 80_000_000);
    let rx = radixes.clone();
    run_prop(
        rep,
        ctx,
        "generated:all-types",
        n,
        || {
            let rx = rx.clone();
            (any::<u16>(), any::<u16>(), any::<bool>())
                .prop_flat_map(move |(ti, ri, nmd)| {
                    let ty = gen::pick(ti, 12);
                    let (radix, entry) = rx[gen::pick(ri, rx.len())];
                    prop_oneof![10 => text_strategy(INT_BITS[ty], INT_SIGNED[ty], radix), 1 => raw_bytes()]
                        .prop_map(move |(text, class)| Case { ty, entry, text, no_multi_digit: nmd, class })
                })
                .boxed()
        },
        case_json,
        check_case,
    );
    // (c) default API
    let nd = ctx.n(50_000, 5_000_000);
    default_api!(rep, ctx, nd, u8 u16 u32 u64 u128 usize i8 i16 i32 i64 i128 isize);
}

pub fn replay(_ctx: &Ctx, case: &Value) -> CaseResult {
    let mut l = Local::new();
    let tyname = case["type"].as_str().unwrap_or("u64");
    let ty = INT_NAMES.iter().position(|n| *n == tyname).unwrap_or(3);
    let text = unhex(case["text_hex"].as_str().unwrap_or(""));
    if let Some(fmt) = case["format"].as_str() {
        let entry = match cat().idx(fmt) {
            Some(i) => i,
            None => return Err(Fail::new(format!("format {fmt} not compiled in this configuration"))),
        };
        check_case(&Case { ty, entry, text, no_multi_digit: case["no_multi_digit"].as_bool().unwrap_or(false), class: "replay" }, &mut l)
    } else {
        macro_rules! d {
            ($($t:ident)*) => { match tyname { $(stringify!($t) => check_default::<$t>(&text, &mut l),)* _ => Ok(()) } };
        }
        d!(u8 u16 u32 u64 u128 usize i8 i16 i32 i64 i128 isize)
    }
}
