//! C12 — number-format syntax flags accept exactly the documented grammar (separator-free input).

use crate::c05::{exp_char_for, kind_of};
use crate::cat::cat;
use crate::lex::*;
use catalogue::{FLOAT_NAMES, INT_BITS, INT_NAMES, INT_SIGNED};
use proptest::prelude::*;
use serde_json::{json, Value};
use vcore::big::Big;
use vcore::fmodel::{FormatModel, SYNTAX_FLAG_NAMES};
use vcore::gen;
use vcore::numtext::{digit_char, round_parts};
use vcore::refparse::*;
use vcore::report::*;

#[derive(Clone, Copy, Debug, PartialEq, Eq)]
pub enum Ty {
    Float(usize),
    Int(usize),
}

impl Ty {
    pub fn name(&self) -> &'static str {
        match self {
            Ty::Float(i) => FLOAT_NAMES[*i],
            Ty::Int(i) => INT_NAMES[*i],
        }
    }
    pub fn from_name(n: &str) -> Ty {
        if let Some(i) = FLOAT_NAMES.iter().position(|x| *x == n) {
            Ty::Float(i)
        } else {
            Ty::Int(INT_NAMES.iter().position(|x| *x == n).unwrap_or(3))
        }
    }
}

pub fn opt_model_for(m: &FormatModel) -> OptModel {
    let mut o = OptModel::standard();
    o.exponent = exp_char_for(m);
    o
}

/// alternative special strings (C11): a NaN string longer than the long infinity string
pub const ALT_NAN: &[u8] = b"NotANumberXYZ";
pub const ALT_INF: &[u8] = b"Inf";
pub const ALT_INFINITY: &[u8] = b"Infinite";

pub fn lexical_opts(o: &OptModel) -> lexical_core::ParseFloatOptions {
    let b = lexical_core::ParseFloatOptions::builder().exponent(o.exponent).decimal_point(o.decimal_point);
    if o.nan.as_deref() == Some(ALT_NAN) {
        return b.nan_string(Some(ALT_NAN)).inf_string(Some(ALT_INF)).infinity_string(Some(ALT_INFINITY)).build_unchecked();
    }
    b.build_unchecked()
}

/// per-format alphabet for bounded-exhaustive strings
pub fn alphabet(m: &FormatModel, o: &OptModel, with_sep: bool) -> Vec<u8> {
    let r = m.mantissa_radix().max(2);
    let mut a: Vec<u8> = vec![b'+', b'-', b'0', b'1'];
    let top = digit_char((r - 1) as u8);
    a.push(top);
    if top.is_ascii_uppercase() {
        a.push(top.to_ascii_lowercase());
    }
    // mixed radices: the largest exponent digit (an exponent digit need not be a mantissa digit and vice versa)
    let xr = m.exponent_radix().max(2);
    if xr != r {
        a.push(digit_char((xr - 1) as u8));
    }
    a.push(o.decimal_point);
    a.push(o.exponent);
    // the other-case letter; for punctuation that is not a letter the byte that differs in bit 5 only
    // ('^' / '~', '@' / '`'): junk that an xor-0x20 case fold takes for the configured character
    a.push(o.exponent ^ 0x20);
    for c in [m.base_prefix, m.base_suffix] {
        if c != 0 {
            a.push(c);
            a.push(c ^ 0x20);
        }
    }
    if with_sep && m.digit_separator != 0 {
        a.push(m.digit_separator);
    }
    // the symbol whose digit value equals the radix (':' after '9', 'G' after 'F', ...): junk that an
    // off-by-one digit classifier takes for a digit; and a non-ASCII byte that a careless case fold
    // or digit test maps onto the largest digit
    for c in [vcore::gen::radix_symbol(r), b'n', b'a', b'N', b'i', b'f', b' ', top | 0x80] {
        a.push(c);
    }
    let mut seen = std::collections::HashSet::new();
    a.retain(|c| seen.insert(*c));
    a
}

pub fn case_json(entry: usize, ty: Ty, text: &[u8]) -> Value {
    let e = &cat().entries[entry];
    json!({"format": e.name, "type": ty.name(), "text": show(text), "text_hex": hex(text)})
}

/// reference verdict -> expected outcome of the complete parser
#[derive(Clone, Debug, PartialEq, Eq)]
pub enum Expect {
    Reject(&'static str),
    /// value bits (float: IEEE bits or u128::MAX for NaN; int: two's complement)
    Value(u128),
    /// accepted syntactically but the integer does not fit
    IntOverflow,
}

pub fn expect_for(text: &[u8], m: &FormatModel, o: &OptModel, ty: Ty) -> Expect {
    match ty {
        Ty::Float(fi) => {
            let k = kind_of(fi);
            match ref_parse_float(text, m, o) {
                RefF::Reject(w) => Expect::Reject(w),
                RefF::Nan => Expect::Value(u128::MAX),
                RefF::Inf(neg) => Expect::Value((k.inf_bits() | if neg { k.sign_mask() } else { 0 }) as u128),
                RefF::Num(p) => {
                    let r = round_parts(k, &p, m.radices());
                    Expect::Value((r.bits | if p.neg { k.sign_mask() } else { 0 }) as u128)
                },
            }
        },
        Ty::Int(ii) => match ref_parse_int(text, m, INT_SIGNED[ii]) {
            RefI::Reject(w) => Expect::Reject(w),
            RefI::Val(neg, digits) => {
                let bits = INT_BITS[ii];
                let v = Big::from_digits(&digits, m.mantissa_radix());
                let limit = if neg { 1u128 << (bits - 1) } else { gen::int_max(bits, INT_SIGNED[ii]) };
                match v.to_u128() {
                    Some(x) if x <= limit => Expect::Value(gen::wrap_int(if neg { x.wrapping_neg() } else { x }, bits, INT_SIGNED[ii])),
                    _ => Expect::IntOverflow,
                }
            },
        },
    }
}

pub fn lex_complete(entry: usize, ty: Ty, text: &[u8], o: &OptModel) -> POut {
    let e = &cat().entries[entry];
    match ty {
        Ty::Float(fi) => {
            let (pf, _) = e.pf[fi].expect("float parser compiled");
            crate::c05::float_call(pf, text, &lexical_opts(o), kind_of(fi))
        },
        Ty::Int(ii) => {
            let (pi, _) = e.pi[ii].expect("int parser compiled");
            let opts = lexical_core::ParseIntegerOptions::new();
            match guard(|| pi(text, &opts)) {
                Ok(Ok(v)) => POut::Ok(v, text.len()),
                Ok(Err(e)) => err_out(&e),
                Err(p) => POut::Panic(p),
            }
        },
    }
}

/// Structural signatures of known findings (narrow; see known_findings.json).
fn classify(m: &FormatModel, ty: Ty, text: &[u8], exp: &Expect, got: &POut) -> Option<&'static str> {
    let digits_optional = !m.required_mantissa_digits && !m.required_integer_digits;
    let zero_ok = matches!(got, POut::Ok(0, _));
    if digits_optional && zero_ok && matches!(exp, Expect::Reject(_)) {
        match ty {
            // "empty strings are still invalid" (required_mantissa_digits docs)
            Ty::Float(_) if text.is_empty() => return Some("c12_float_empty_string_accepted"),
            // "digits are always required for integers" (required_digits docs)
            Ty::Int(_) if text.is_empty() || text == b"+" || text == b"-" => return Some("c12_int_no_digits_accepted"),
            _ => {},
        }
    }
    None
}

/// Shapes on which the documentation is silent: the oracle abstains.
fn abstain(m: &FormatModel, ty: Ty, text: &[u8]) -> bool {
    // a bare sign when neither integer nor mantissa digits are required: the docs only say that
    // the *empty string* stays invalid
    matches!(ty, Ty::Float(_)) && !m.required_mantissa_digits && !m.required_integer_digits && (text == b"+" || text == b"-")
}

pub fn check_one(entry: usize, ty: Ty, text: &[u8], l: &mut Local) -> CaseResult {
    let m = &cat().models[entry];
    let e = &cat().entries[entry];
    let o = opt_model_for(m);
    let exp = expect_for(text, m, &o, ty);
    let got = lex_complete(entry, ty, text, &o);
    l.eval(1);
    let nontrivial = !matches!(exp, Expect::Reject(_)) || got.is_ok() || matches!(&got, POut::Err(_, Some(i)) if *i > 0);
    if nontrivial {
        l.nontrivial_enum += 1;
        if l.want_sample() && text.len() >= 3 {
            l.sample(case_json(entry, ty, text));
        }
    }
    let ok = match (&exp, &got) {
        (Expect::Reject(_), POut::Err(..)) => true,
        (Expect::Value(v), POut::Ok(g, _)) => v == g,
        (Expect::IntOverflow, POut::Err(k, _)) => k == "Overflow" || k == "Underflow",
        _ => false,
    };
    match &got {
        POut::Ok(..) => l.class("lexical:accept"),
        POut::Err(..) => l.class("lexical:reject"),
        POut::Panic(_) => l.class("lexical:panic"),
    }
    if ok {
        return Ok(());
    }
    if abstain(m, ty, text) {
        l.class("abstain:bare-sign-with-optional-digits");
        return Ok(());
    }
    let msg = format!(
        "{} {} [{}] parse({:?}) = {}, documented grammar says {}",
        ty.name(),
        e.name,
        m.describe(),
        show(text),
        got.show(),
        match &exp {
            Expect::Reject(w) => format!("reject ({w})"),
            Expect::Value(v) => format!("accept with value bits {v:#x}"),
            Expect::IntOverflow => "overflow error".into(),
        }
    );
    match classify(m, ty, text, &exp, &got) {
        Some(k) => Err(Fail::known(msg, k)),
        None => Err(Fail::new(msg)),
    }
}

pub fn for_each_string(alpha: &[u8], max_len: usize, mut f: impl FnMut(&[u8]) -> bool) {
    let a = alpha.len();
    let mut buf: Vec<u8> = Vec::with_capacity(max_len);
    for len in 0..=max_len {
        let n = a.pow(len as u32);
        for mut idx in 0..n {
            buf.clear();
            for _ in 0..len {
                buf.push(alpha[idx % a]);
                idx /= a;
            }
            if !f(&buf) {
                return;
            }
        }
    }
}

#[derive(Clone, Debug)]
pub struct Job {
    pub entry: usize,
    pub ty: Ty,
}

pub fn jobs(groups: &[&str], want_sep: bool) -> Vec<Job> {
    let c = cat();
    let mut v = Vec::new();
    let mut seen = std::collections::HashSet::new();
    for g in groups {
        for i in c.group(g) {
            let e = &c.entries[i];
            let m = &c.models[i];
            if !e.is_valid || m.has_separators() != want_sep {
                continue;
            }
            // triage aid: restrict to formats whose name contains VERIF_FORMATS
            if let Ok(f) = std::env::var("VERIF_FORMATS") {
                if !e.name.contains(&f) {
                    continue;
                }
            }
            for fi in 0..2 {
                if e.pf[fi].is_some() && m.float_radix_pair_ok() && seen.insert((e.packed, 100 + fi)) {
                    v.push(Job { entry: i, ty: Ty::Float(fi) });
                }
            }
            for ii in 0..12 {
                // integers: one signed and one unsigned type per format is enough for syntax
                if e.pi[ii].is_some() && (g != &"core" || ii == 8 || ii == 3) && seen.insert((e.packed, ii)) {
                    v.push(Job { entry: i, ty: Ty::Int(ii) });
                }
            }
        }
    }
    v
}

pub fn run(ctx: &Ctx, rep: &mut Report) {
    rep.rule = "cases: bounded-exhaustive enumeration of every string up to length L (quick 4, thorough 5) over a per-format number \
        alphabet (signs, digits 0/1/top digit in both cases, decimal point, exponent character in both cases, base prefix/suffix \
        letters in both cases, the letters n a N i f, a space and the largest digit with its high bit set) for every valid separator-free format of the syntax, \
        prebuilt, write and core groups x {f64, f32, i32/u64}; plus long-digit / large-exponent accepted inputs. Oracle: the \
        reference grammar (harness/vcore/refparse.rs, validated against the 216 hidden doc TEST assertions) for acceptance, exact \
        rounding / exact integer value for accepted inputs; STANDARD also against str::parse. non-trivial = accepted by either \
        side, or rejected by lexical at an index > 0; distinct by construction (enumeration)."
        .into();
    rep.assumptions = vec![
        "reference grammar transcribed from the NumberFormatBuilder setter documentation; must reproduce all 216 doc TEST assertions at setup".into(),
        "only acceptance and value are compared (error kinds are not part of the property)".into(),
    ];
    let js = jobs(&["core", "syntax", "prebuilt", "write"], false);
    if js.is_empty() {
        return;
    }
    let max_len = if ctx.thorough() { 5 } else { 4 };
    run_enum(rep, ctx, "enumerated:short-strings", js.len(), |ji, l, viol| {
        let j = &js[ji];
        let m = &cat().models[j.entry];
        let o = opt_model_for(m);
        let alpha = alphabet(m, &o, false);
        let mut nviol = 0;
        for_each_string(&alpha, max_len, |s| {
            if let Err(f) = check_one(j.entry, j.ty, s, l) {
                if filter_known(ctx, l, &f) {
                    viol.push((f.message, case_json(j.entry, j.ty, s)));
                    nviol += 1;
                    return nviol < max_viol().saturating_sub(2).max(1);
                }
            }
            true
        });
        l.class(&format!("group:{}", cat().entries[j.entry].group));
    });
    rep.exhaustive.push(format!("all strings of length <= {max_len} over the per-format alphabet x {} (format, type) pairs", js.len()));
    // generated longer inputs: numbers of the format (1-45 digits, so that every multi-digit block boundary of
    // every integer type is crossed; floats incl. long mantissas and large exponents) with 0-2 structural bytes
    // (prefix / suffix / exponent letters in both cases, point, signs, '0', bytes next to the digit ranges)
    // inserted at arbitrary positions
    run_prop_jobs(
        rep,
        ctx,
        "generated:structured-long",
        &js,
        ctx.n(1200, 30_000),
        |j| {
            let m = &cat().models[j.entry];
            long_strategy(m, j.ty, &opt_model_for(m))
        },
        |j, c| case_json(j.entry, j.ty, c),
        |j, c, l| check_one(j.entry, j.ty, c, l),
    );
    // flag-dependence coverage: for each syntax flag, how many enumerated f64 strings change
    // acceptance when that flag alone is toggled in the reference (measures that each flag is exercised)
    let mut dep = vec![0u64; 18];
    {
        let fjobs: Vec<&Job> = js.iter().filter(|j| j.ty == Ty::Float(1)).collect();
        let res = run_workers(ctx.threads, fjobs.len(), |w| {
            let j = fjobs[w];
            let m = &cat().models[j.entry];
            let o = opt_model_for(m);
            let alpha = alphabet(m, &o, false);
            let mut dep = vec![0u64; 18];
            for_each_string(&alpha, 3, |s| {
                let base = ref_parse_float(s, m, &o).accepted();
                for f in 0..18 {
                    let m2 = FormatModel::decode(m.packed ^ (1u128 << f));
                    if ref_parse_float(s, &m2, &o).accepted() != base {
                        dep[f] += 1;
                    }
                }
                true
            });
            dep
        });
        for d in res {
            for f in 0..18 {
                dep[f] += d[f];
            }
        }
    }
    let depmap: serde_json::Map<String, Value> = SYNTAX_FLAG_NAMES.iter().enumerate().map(|(i, n)| (n.to_string(), json!(dep[i]))).collect();
    rep.extra.insert("strings_whose_acceptance_depends_on_flag(len<=3,f64)".into(), Value::Object(depmap));
}

fn long_strategy(m: &FormatModel, ty: Ty, o: &OptModel) -> BoxedStrategy<Vec<u8>> {
    use vcore::gen;
    let rx = m.radices();
    let (pt, ec) = (o.decimal_point, o.exponent);
    let radix = rx.mant;
    let digits = move |max: usize| {
        proptest::collection::vec(any::<u8>(), 1..=max).prop_map(move |v| v.into_iter().map(|b| {
            let d = (b as u32) % radix;
            let c = digit_char(d as u8);
            if b & 0x80 != 0 { c.to_ascii_lowercase() } else { c }
        }).collect::<Vec<u8>>())
    };
    let base: BoxedStrategy<Vec<u8>> = match ty {
        Ty::Float(fi) => {
            let k = crate::c05::kind_of(fi);
            prop_oneof![
                3 => gen::grammar_text(rx, pt, ec).prop_map(|(t, _)| t),
                2 => gen::fastpath_text(k, rx, pt, ec).prop_map(|(t, _)| t),
                1 => gen::midpoint_text(k, rx, pt, ec).prop_map(|(t, _)| t),
                2 => digits(24),
            ]
            .boxed()
        },
        Ty::Int(ii) => {
            let bits = catalogue::INT_BITS[ii];
            let signed = catalogue::INT_SIGNED[ii];
            prop_oneof![
                2 => gen::int_value(bits, signed, radix).prop_map(move |v| gen::ref_numeral(v, bits, signed, radix, false)),
                3 => digits(45),
                1 => (0usize..40, digits(12)).prop_map(|(z, d)| { let mut v = vec![b'0'; z]; v.extend(d); v }),
            ]
            .boxed()
        },
    };
    let mut structural: Vec<u8> = vec![b'+', b'-', b'0', pt, ec, ec ^ 0x20];
    for c in [m.base_prefix, m.base_suffix] {
        if c != 0 {
            structural.push(c);
            structural.push(c);
            structural.push(c ^ 0x20);
        }
    }
    structural.extend(gen::boundary_bytes(rx.mant.max(rx.exp)));
    let (pfx, sfx) = (m.base_prefix, m.base_suffix);
    (any::<u8>(), base, proptest::collection::vec((any::<u16>(), any::<u16>()), 0..=2))
        .prop_map(move |(h, mut t, ins)| {
            if t.len() > 400 {
                t.truncate(400);
            }
            let mut out = Vec::with_capacity(t.len() + 6);
            match h & 7 {
                0 => out.push(b'-'),
                1 => out.push(b'+'),
                _ => {},
            }
            // the number itself may start with a sign: keep it in front of the prefix
            if !t.is_empty() && (t[0] == b'-' || t[0] == b'+') && out.is_empty() {
                out.push(t.remove(0));
            }
            if pfx != 0 && h & 0x18 == 0 {
                out.push(b'0');
                out.push(if h & 0x20 != 0 && pfx.is_ascii_alphabetic() { pfx ^ 0x20 } else { pfx });
            }
            out.extend(t);
            if sfx != 0 && h & 0xc0 == 0 {
                out.push(sfx);
            }
            for (pos, which) in ins {
                let p = gen::pick(pos, out.len() + 1);
                out.insert(p, structural[gen::pick(which, structural.len())]);
            }
            out
        })
        .boxed()
}

pub fn replay(_ctx: &Ctx, case: &Value) -> CaseResult {
    let mut l = Local::new();
    let fmt = case["format"].as_str().unwrap_or("STANDARD");
    let entry = match cat().idx(fmt) {
        Some(i) => i,
        None => return Err(Fail::new(format!("format {fmt} not compiled in this configuration"))),
    };
    let ty = Ty::from_name(case["type"].as_str().unwrap_or("f64"));
    check_one(entry, ty, &unhex(case["text_hex"].as_str().unwrap_or("")), &mut l)
}
