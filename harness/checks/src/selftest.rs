//! Self-tests of the trusted base: exact arithmetic and the rounding oracle versus std.

use crate::lex::*;
use proptest::prelude::*;
use vcore::big::Big;
use vcore::flt::*;
use vcore::gen;
use vcore::numtext::*;
use vcore::report::{sample_strategy, splitmix};

fn check_round_vs_std<F: FloatT>(n: usize, seed: u64) -> usize {
    let k = F::KIND;
    let rx = Radices::DECIMAL;
    let strat = prop_oneof![
        gen::midpoint_text(k, rx, b'.', b'e'),
        gen::value_text(k, rx, b'.', b'e'),
        gen::grammar_text(rx, b'.', b'e'),
        gen::fastpath_text(k, rx, b'.', b'e'),
        gen::range_edge_text(k, rx, b'.', b'e'),
        gen::beyond_range_text(k, rx, b'.', b'e'),
        gen::limb_aligned_text(k, rx, b'.', b'e'),
    ];
    let cases = sample_strategy(&strat, seed, n);
    let mut bad = 0;
    for (text, class) in cases {
        let s = std::str::from_utf8(&text).unwrap();
        let (parts, _) = match read_number(&text, rx, b'.', b'e', true) {
            Some(p) => p,
            None => {
                eprintln!("selftest: generator text not readable: {s} [{class}]");
                bad += 1;
                continue;
            },
        };
        let r = round_parts(k, &parts, rx);
        let bits = if parts.neg { r.bits | k.sign_mask() } else { r.bits };
        match F::std_parse(s) {
            Some(v) => {
                if v.bits64() != bits {
                    eprintln!("selftest: oracle {:#x} != std {:#x} for {} [{class}]", bits, v.bits64(), show(&text));
                    bad += 1;
                }
                // second implementation: interval membership
                if k.is_finite(bits) {
                    if let Exact::Val(rat) = exact_value(&parts, rx) {
                        if !in_rounding_interval(k, bits, &rat) {
                            eprintln!("selftest: in_rounding_interval rejects own rounding for {}", show(&text));
                            bad += 1;
                        }
                        let up = next_up_mag(k, bits);
                        if k.is_finite(up) && in_rounding_interval(k, up, &rat) {
                            eprintln!("selftest: interval of successor also contains {}", show(&text));
                            bad += 1;
                        }
                        let a = k.abs(bits);
                        if a > 0 && in_rounding_interval(k, a - 1, &rat) {
                            eprintln!("selftest: interval of predecessor also contains {}", show(&text));
                            bad += 1;
                        }
                    }
                }
            },
            None => {
                eprintln!("selftest: std rejects generated text {s} [{class}]");
                bad += 1;
            },
        }
    }
    bad
}

fn check_big(n: usize) -> usize {
    let mut bad = 0;
    let mut x = 12345u64;
    let mut next = || {
        x = splitmix(x);
        x
    };
    for _ in 0..n {
        let a = (next() as u128) << (next() % 64) | next() as u128;
        let b = (next() as u128) >> (next() % 64);
        let ba = Big::from_u128(a);
        let bb = Big::from_u128(b);
        // (a*b + b) - b == a*b, digits round trip in a random radix
        let prod = ba.mul(&bb);
        let sum = prod.add(&bb);
        if sum.sub(&bb) != prod {
            bad += 1;
        }
        let radix = 2 + (next() % 35) as u32;
        let d = prod.to_digits(radix);
        if Big::from_digits(&d, radix) != prod {
            eprintln!("selftest: digit round trip failed radix {radix}");
            bad += 1;
        }
        if let (Some(pa), Some(_)) = (a.checked_mul(b), Some(())) {
            if prod.to_u128() != Some(pa) {
                bad += 1;
            }
        }
        let sh = next() % 200;
        if prod.shl(sh).shr(sh) != prod {
            bad += 1;
        }
        if !bb.is_zero() {
            // exact division via quotient search when it fits
            let q = next() >> 2;
            let n2 = bb.mul_small_new(q);
            let (qq, exact) = n2.div_small_quotient(&bb);
            if qq != q || !exact {
                eprintln!("selftest: div_small_quotient wrong");
                bad += 1;
            }
        }
        // pow consistency
        let base = 2 + next() % 35;
        let e = next() % 120;
        let mut p = Big::from_u64(1);
        for _ in 0..e {
            p.mul_small(base);
        }
        if Big::pow(base, e) != p {
            eprintln!("selftest: pow mismatch {base}^{e}");
            bad += 1;
        }
    }
    bad
}

/// Emit operation traces for the Python cross-check (run.py setup).
pub fn export_big(n: usize) {
    let mut x = 777u64;
    let mut next = || {
        x = splitmix(x);
        x
    };
    for _ in 0..n {
        let base = 2 + next() % 35;
        let e = next() % 400;
        let m = next();
        let v = Big::pow(base, e).mul(&Big::from_u64(m));
        let sh = next() % 300;
        println!("{} {} {} {} {} {}", base, e, m, sh, v.to_decimal_string(), v.shl(sh).bit_len());
    }
}

/// Emit rounding verdicts for Python's fractions-based cross-check.
pub fn export_round(n: usize) {
    let rx = Radices::DECIMAL;
    for (k, name) in [(F64, "f64"), (F32, "f32")] {
        let strat = prop_oneof![gen::midpoint_text(k, rx, b'.', b'e'), gen::grammar_text(rx, b'.', b'e'), gen::range_edge_text(k, rx, b'.', b'e')];
        for (text, _) in sample_strategy(&strat, 99, n) {
            let (parts, _) = read_number(&text, rx, b'.', b'e', true).unwrap();
            let r = round_parts(k, &parts, rx);
            if text.len() < 600 {
                println!("{} {} {}", name, String::from_utf8_lossy(&text), r.bits);
            }
        }
    }
}

/// The reference grammar must agree with every assertion of the hidden doc TEST blocks of
/// lexical-util/src/format_builder.rs (extracted into corpus/doc_tests.json).
fn check_doc_tests() -> usize {
    use vcore::fmodel::FormatModel;
    use vcore::refparse::*;
    let dir = std::env::var("VERIF_DIR").unwrap_or_else(|_| "/verif".into());
    let txt = match std::fs::read_to_string(format!("{dir}/corpus/doc_tests.json")) {
        Ok(t) => t,
        Err(e) => {
            eprintln!("selftest: cannot read doc_tests.json: {e}");
            return 1;
        },
    };
    let v: serde_json::Value = serde_json::from_str(&txt).unwrap();
    let mut bad = 0;
    let mut n = 0;
    for t in v.as_array().unwrap() {
        let packed = u128::from_str_radix(t["format"].as_str().unwrap().trim_start_matches("0x"), 16).unwrap();
        let m = FormatModel::decode(packed);
        let input = unhex(t["input_hex"].as_str().unwrap());
        let expect_ok = t["expect"].as_str() == Some("ok");
        let ty = t["type"].as_str().unwrap();
        let mut o = OptModel::standard();
        if t["options"].as_str().unwrap().ends_with("RDX") {
            o.exponent = b'^';
        }
        n += 1;
        let (accepted, detail) = if ty.starts_with('f') {
            match ref_parse_float(&input, &m, &o) {
                RefF::Reject(why) => (false, why.to_string()),
                RefF::Num(p) => {
                    // compare the value with the documented one when it is a plain float literal
                    let r = round_parts(F64, &p, m.radices());
                    let bits = if p.neg { r.bits | F64.sign_mask() } else { r.bits };
                    let want: Option<f64> = t["detail"].as_str().and_then(|d| d.trim().parse::<f64>().ok());
                    if let (true, Some(w)) = (expect_ok, want) {
                        if w.to_bits() != bits && !(w == 0.0 && f64::from_bits(bits) == 0.0) {
                            eprintln!("selftest: doc test line {} input {:?}: reference value {:e} != documented {:e}", t["line"], t["input"], f64::from_bits(bits), w);
                            bad += 1;
                        }
                    }
                    (true, String::new())
                },
                _ => (true, "special".into()),
            }
        } else {
            match ref_parse_int(&input, &m, ty.starts_with('i')) {
                RefI::Reject(why) => (false, why.to_string()),
                RefI::Val(..) => (true, String::new()),
            }
        };
        if accepted != expect_ok {
            eprintln!(
                "selftest: doc test (format_builder.rs:{}) {} {:?} [{}] documented {} but reference grammar says {} {}",
                t["line"],
                ty,
                t["input"].as_str().unwrap(),
                m.describe(),
                t["expect"],
                if accepted { "accept" } else { "reject" },
                detail
            );
            bad += 1;
        }
    }
    println!("doc-test conformance: {n} assertions, {bad} disagreements");
    bad
}

pub fn run() -> bool {
    let args: Vec<String> = std::env::args().collect();
    if args.get(2).map(|s| s.as_str()) == Some("export-big") {
        export_big(2000);
        return true;
    }
    if args.get(2).map(|s| s.as_str()) == Some("export-round") {
        export_round(3000);
        return true;
    }
    let mut bad = 0;
    bad += check_big(20_000);
    bad += check_round_vs_std::<f64>(60_000, 1);
    bad += check_round_vs_std::<f32>(60_000, 2);
    bad += check_doc_tests();
    if bad == 0 {
        println!("selftest ok");
    } else {
        println!("selftest FAILED: {bad} problems");
    }
    bad == 0
}
