//! `checks` — one binary per build configuration; sub-command per property.
//!
//!   checks run <property> --out <partial.json>     (env: VERIF_SEED, VERIF_TIER, VERIF_THREADS)
//!   checks replay <replay.json>                     exit 0 = no violation, 1 = violation reproduced
//!   checks selftest                                 oracle self-tests (setup)
//!   checks info                                     print config / profile


use checks::*;
use serde_json::{json, Value};
use std::time::Instant;
use vcore::report::*;

fn known_matchers(verif_dir: &str, property: &str) -> Vec<String> {
    let path = format!("{verif_dir}/known_findings.json");
    let txt = match std::fs::read_to_string(&path) {
        Ok(t) => t,
        Err(_) => return vec![],
    };
    let v: Value = match serde_json::from_str(&txt) {
        Ok(v) => v,
        Err(e) => {
            eprintln!("cannot parse {path}: {e}");
            std::process::exit(2);
        },
    };
    let mut out = vec![];
    if let Some(arr) = v["findings"].as_array() {
        for f in arr {
            if f["property"].as_str() == Some(property) && f["status"].as_str() == Some("open") {
                if let Some(m) = f["matcher"].as_str() {
                    out.push(m.to_string());
                }
            }
        }
    }
    out
}

fn make_ctx(property: &str) -> Ctx {
    let verif_dir = std::env::var("VERIF_DIR").unwrap_or_else(|_| "/verif".into());
    let seed = std::env::var("VERIF_SEED").ok().and_then(|s| s.parse::<u64>().ok()).unwrap_or(0);
    let tier = match std::env::var("VERIF_TIER").as_deref() {
        Ok("thorough") => Tier::Thorough,
        _ => Tier::Quick,
    };
    let threads = std::env::var("VERIF_THREADS")
        .ok()
        .and_then(|s| s.parse::<usize>().ok())
        .unwrap_or_else(|| std::thread::available_parallelism().map(|n| n.get()).unwrap_or(4));
    let scale = std::env::var("VERIF_SCALE").ok().and_then(|s| s.parse::<f64>().ok()).unwrap_or(1.0);
    let known = if std::env::var("VERIF_STRICT").as_deref() == Ok("1") { vec![] } else { known_matchers(&verif_dir, property) };
    Ctx {
        property: property.to_string(),
        tier,
        seed,
        config: lex::config_name(),
        profile: lex::profile_name().to_string(),
        threads,
        known,
        scale,
    }
}

type RunFn = fn(&Ctx, &mut Report);
type ReplayFn = fn(&Ctx, &Value) -> CaseResult;

fn registry(property: &str) -> Option<(RunFn, ReplayFn)> {
    match property {
        "C01" => Some((c01::run, c01::replay)),
        "C02" => Some((c02::run, c02::replay)),
        "C03" => Some((c03::run, c03::replay)),
        "C04" => Some((c04::run, c04::replay)),
        "C05" => Some((c05::run_c05, c05::replay_c05)),
        "C06" => Some((c06::run_c06, c06::replay_c06)),
        "C07" => Some((c06::run_c07, c06::replay_c07)),
        "C08" => Some((c08::run, c08::replay)),
        "C09" => Some((c09::run, c09::replay)),
        "C10" => Some((c10::run, c10::replay)),
        "C11" => Some((c11::run, c11::replay)),
        "C12" => Some((c12::run, c12::replay)),
        "C13" => Some((c13::run, c13::replay)),
        "C14" => Some((c14::run, c14::replay)),
        "C15" => Some((c15::run, c15::replay)),
        "C16" => Some((c16::run, c16::replay)),
        "C17" => Some((c17::run, c17::replay)),
        "C18" => Some((c18::run, c18::replay)),
        "C19" => Some((c05::run_c19, c05::replay_c19)),
        _ => None,
    }
}

fn main() {
    install_quiet_panic_hook();
    let args: Vec<String> = std::env::args().collect();
    if args.len() < 2 {
        eprintln!("usage: checks run <property> --out <file> | replay <file> | selftest | info");
        std::process::exit(2);
    }
    match args[1].as_str() {
        "info" => {
            println!("{}", json!({"config": lex::config_name(), "profile": lex::profile_name()}));
        },
        "selftest" => {
            let ok = selftest::run();
            std::process::exit(if ok { 0 } else { 2 });
        },
        "run" => {
            let property = args.get(2).expect("property id").clone();
            let out = args.iter().position(|a| a == "--out").and_then(|i| args.get(i + 1)).expect("--out <file>").clone();
            let (run, _) = match registry(&property) {
                Some(x) => x,
                None => {
                    eprintln!("unknown property {property}");
                    std::process::exit(2);
                },
            };
            let ctx = make_ctx(&property);
            let mut rep = Report::default();
            let t0 = Instant::now();
            // a compiled format that the library rejects although the documented rules accept it would be skipped
            // by every job list: report it under the property whose domain contains it
            let groups: &[&str] = match property.as_str() {
                "C03" | "C04" | "C05" | "C06" | "C07" | "C19" => &["core"],
                "C16" | "C18" | "C01" | "C02" => &[],
                _ => &["core", "write", "syntax", "prebuilt", "sep"],
            };
            for (name, desc) in cat::cat().unexpectedly_invalid(groups).into_iter().take(3) {
                rep.violation(
                    "catalogue:format-validity",
                    format!("format {name} [{desc}] is valid by the documented rules for this feature set, but the library reports it invalid: every parser and writer only returns a configuration error for it"),
                    json!({"format": name, "kind": "format-validity"}),
                );
            }
            // C09 / C10 run their cases in supervised worker processes with a per-case watchdog
            if property != "C09" && property != "C10" {
                let tier = if ctx.thorough() { "thorough" } else { "quick" };
                start_watchdog(
                    format!("{property} [{}:{}]", ctx.config, ctx.profile),
                    out.clone(),
                    json!({"property_id": property, "config": ctx.config, "profile": ctx.profile, "tier": tier, "seed": ctx.seed}),
                );
            }
            run(&ctx, &mut rep);
            let wall = t0.elapsed().as_secs_f64();
            let v = rep.to_json(&ctx, wall);
            std::fs::write(&out, serde_json::to_string_pretty(&v).unwrap()).expect("write partial report");
            let infra = rep.extra.contains_key("infra_problem");
            eprintln!(
                "[{} {} {}] evaluations={} distinct_nontrivial={} violations={} wall={:.1}s",
                property,
                ctx.config,
                ctx.profile,
                v["evaluations"],
                v["distinct_nontrivial"],
                rep.violations.len(),
                wall
            );
            if infra {
                std::process::exit(3);
            }
        },
        "c16dump" => {
            let chunk: usize = args.get(2).and_then(|s| s.parse().ok()).unwrap_or(0);
            let ctx = make_ctx("C16");
            c16::dump(ctx.seed, chunk);
        },
        "worker" => {
            let wa = sup::parse_worker_args(&args);
            let ctx = make_ctx(&wa.property);
            c10::init_worker(Some(&wa.shm), wa.skip);
            let mut rep = Report::default();
            let t0 = Instant::now();
            match wa.property.as_str() {
                "C09" => c09::run_worker(&ctx, &mut rep, wa.chunk, wa.nchunks),
                "C10" => c10::run_worker(&ctx, &mut rep, wa.chunk, wa.nchunks),
                other => {
                    eprintln!("no worker for {other}");
                    std::process::exit(2);
                },
            }
            let v = rep.to_json(&ctx, t0.elapsed().as_secs_f64());
            std::fs::write(&wa.out, serde_json::to_string(&v).unwrap()).expect("write worker report");
        },
        "replay" => {
            let file = args.get(2).expect("replay file");
            let txt = std::fs::read_to_string(file).expect("read replay file");
            let v: Value = serde_json::from_str(&txt).expect("replay json");
            let property = v["property"].as_str().expect("property").to_string();
            let (_, replay) = registry(&property).expect("unknown property");
            let mut ctx = make_ctx(&property);
            ctx.known = vec![]; // strict: replay never tolerates known findings
            let want_cfg = v["config"].as_str().unwrap_or("");
            if !want_cfg.is_empty() && want_cfg != ctx.config {
                eprintln!("note: replay recorded in config {want_cfg}, running in {}", ctx.config);
            }
            let mut case = v["case"].clone();
            if let Some(obj) = case.as_object_mut() {
                obj.insert("subcheck".into(), v["subcheck"].clone());
            }
            if case["kind"].as_str() == Some("format-validity") {
                let name = case["format"].as_str().unwrap_or("");
                let all = ["core", "write", "syntax", "prebuilt", "sep"];
                if cat::cat().unexpectedly_invalid(&all).iter().any(|(n, _)| n == name) {
                    println!("REPLAY-FAIL property={property} file={file}: format {name} is still reported invalid");
                    println!("VIOLATION property={property} replay={file}");
                    std::process::exit(1);
                }
                println!("REPLAY-PASS property={property} file={file}");
                return;
            }
            match guard(|| replay(&ctx, &case)) {
                Ok(Ok(())) => {
                    println!("REPLAY-PASS property={property} file={file}");
                },
                Ok(Err(f)) => {
                    println!("REPLAY-FAIL property={property} file={file}: {}", f.message);
                    println!("VIOLATION property={property} replay={file}");
                    std::process::exit(1);
                },
                Err(p) => {
                    eprintln!("replay harness panic: {p}");
                    std::process::exit(2);
                },
            }
        },
        other => {
            eprintln!("unknown sub-command {other}");
            std::process::exit(2);
        },
    }
}
