//! C17 — the allocating `lexical` API equals `lexical-core`, and only ASCII is ever emitted.

use crate::c05::kind_of;
use crate::c06::do_write;
use crate::c12::Ty;
use crate::cat::cat;
use crate::lex::*;
use crate::wopts::{self, WOpts};
use catalogue::{FLOAT_NAMES, INT_BITS, INT_SIGNED};
use proptest::prelude::*;
use serde_json::{json, Value};
use vcore::fmodel::FormatModel;
use vcore::gen;
use vcore::report::*;

// formats instantiated directly for the `lexical` facade (const generic)
pub const F_STD: u128 = lexical_core::format::STANDARD;
#[cfg(feature = "power-of-two")]
pub const F_HEX: u128 = lexical_core::NumberFormatBuilder::from_radix(16);
#[cfg(feature = "radix")]
pub const F_R3: u128 = lexical_core::NumberFormatBuilder::from_radix(3);
#[cfg(feature = "format")]
pub const F_SIGNS: u128 = lexical_core::NumberFormatBuilder::new().required_mantissa_sign(true).required_exponent_sign(true).build_unchecked();
#[cfg(all(feature = "format", feature = "power-of-two"))]
pub const F_CHEX: u128 = lexical_core::format::C_HEX_STRING;
// digits optional: the empty string and a bare sign are accepted by lexical-core
#[cfg(feature = "format")]
pub const F_NODIG: u128 = lexical_core::NumberFormatBuilder::new().required_digits(false).build_unchecked();
// mantissa radix below 10 with decimal exponent digits: integers are longer than their decimal size
#[cfg(all(feature = "format", feature = "power-of-two"))]
pub const F_OCT10: u128 = lexical_core::NumberFormatBuilder::new().mantissa_radix(8).exponent_base(std::num::NonZeroU8::new(2)).exponent_radix(std::num::NonZeroU8::new(10)).build_unchecked();
#[cfg(all(feature = "format", feature = "power-of-two"))]
pub const F_BIN10: u128 = lexical_core::NumberFormatBuilder::new().mantissa_radix(2).exponent_base(std::num::NonZeroU8::new(2)).exponent_radix(std::num::NonZeroU8::new(10)).build_unchecked();

fn facade_formats() -> Vec<(&'static str, u128)> {
    let mut v = vec![("STANDARD", F_STD)];
    #[cfg(feature = "power-of-two")]
    v.push(("HEX", F_HEX));
    #[cfg(feature = "radix")]
    v.push(("R3", F_R3));
    #[cfg(feature = "format")]
    v.push(("SIGNS", F_SIGNS));
    #[cfg(all(feature = "format", feature = "power-of-two"))]
    v.push(("C_HEX_STRING", F_CHEX));
    #[cfg(feature = "format")]
    v.push(("NO_REQUIRED_DIGITS", F_NODIG));
    #[cfg(all(feature = "format", feature = "power-of-two"))]
    v.push(("OCT_E10", F_OCT10));
    #[cfg(all(feature = "format", feature = "power-of-two"))]
    v.push(("BIN_E10", F_BIN10));
    v
}

fn wr<T, const F: u128>(v: T, o: &T::Options) -> (Result<Vec<u8>, String>, Result<Vec<u8>, String>)
where
    T: Copy + lexical_core::ToLexicalWithOptions + lexical_core::FormattedSize,
    T::Options: lexical_core::WriteOptions,
{
    #[allow(deprecated)]
    let core = guard(|| {
        // the reference gets room to spare: if the documented bound were too small only the
        // facade, which allocates exactly the bound, would fail
        let size = <T::Options as lexical_core::WriteOptions>::buffer_size::<T, F>(o);
        // prefilled with ASCII zeros, unlike the facade's zero-filled Vec: a writer that reads bytes it has not
        // written (seeded change C17-K) then answers differently on the two sides
        let mut buf = vec![b'0'; size.max(lexical_core::BUFFER_SIZE) + 256];
        let n = lexical_core::write_with_options::<T, F>(v, &mut buf, o).len();
        buf.truncate(n);
        buf
    });
    let facade = guard(|| lexical::to_string_with_options::<T, F>(v, o).into_bytes());
    (core, facade)
}

#[derive(Clone, Debug)]
pub struct WCase {
    pub fmt: usize,
    /// 0 f32, 1 f64, 2 i64, 3 u8, 4 u64, 5 u128, 6 i32
    pub ty: u8,
    pub value: u128,
    pub opts: WOpts,
}

fn wcase_json(c: &WCase) -> Value {
    json!({"kind": "facade-write", "facade_format": facade_formats()[c.fmt].0, "ty": c.ty, "value": format!("{:#x}", c.value), "options": c.opts.to_json()})
}

macro_rules! dispatch_fmt {
    ($name:expr, $f:ident, $body:expr) => {{
        match $name {
            "STANDARD" => {
                const $f: u128 = F_STD;
                $body
            },
            #[cfg(feature = "power-of-two")]
            "HEX" => {
                const $f: u128 = F_HEX;
                $body
            },
            #[cfg(feature = "radix")]
            "R3" => {
                const $f: u128 = F_R3;
                $body
            },
            #[cfg(feature = "format")]
            "SIGNS" => {
                const $f: u128 = F_SIGNS;
                $body
            },
            #[cfg(all(feature = "format", feature = "power-of-two"))]
            "C_HEX_STRING" => {
                const $f: u128 = F_CHEX;
                $body
            },
            #[cfg(feature = "format")]
            "NO_REQUIRED_DIGITS" => {
                const $f: u128 = F_NODIG;
                $body
            },
            #[cfg(all(feature = "format", feature = "power-of-two"))]
            "OCT_E10" => {
                const $f: u128 = F_OCT10;
                $body
            },
            #[cfg(all(feature = "format", feature = "power-of-two"))]
            "BIN_E10" => {
                const $f: u128 = F_BIN10;
                $body
            },
            _ => unreachable!(),
        }
    }};
}

/// the facade alone (C09's view of it): `to_string_with_options` allocates the documented bound itself, so
/// an under-estimated bound shows as a panic of the facade; None = the bound is too large to allocate here
fn fw<T, const F: u128>(v: T, o: &T::Options) -> Option<(usize, Result<Vec<u8>, String>)>
where
    T: Copy + lexical_core::ToLexicalWithOptions + lexical_core::FormattedSize,
    T::Options: lexical_core::WriteOptions,
{
    #[allow(deprecated)]
    let size = guard(|| <T::Options as lexical_core::WriteOptions>::buffer_size::<T, F>(o)).ok()?;
    if size > (1 << 20) {
        return None;
    }
    Some((size, guard(|| lexical::to_string_with_options::<T, F>(v, o).into_bytes())))
}

/// C09 at the observation point `lexical::to_string_with_options`: no panic, and no more bytes than the bound
pub fn check_facade_bound(c: &WCase, l: &mut Local) -> CaseResult {
    let (name, _) = facade_formats()[c.fmt];
    l.eval(1);
    let fo = c.opts.to_lexical();
    if !fo.is_valid() {
        l.class("skipped:invalid-options");
        return Ok(());
    }
    if c.ty < 2 {
        let k = if c.ty == 0 { vcore::flt::F32 } else { vcore::flt::F64 };
        let b = c.value as u64;
        if (k.is_nan(b) && c.opts.nan == usize::MAX) || (k.is_inf(b) && c.opts.inf == usize::MAX) {
            l.class("skipped:special-with-disabled-string");
            return Ok(());
        }
    }
    let io = lexical_core::WriteIntegerOptions::new();
    let r = dispatch_fmt!(name, F, {
        match c.ty {
            0 => fw::<f32, F>(f32::from_bits(c.value as u32), &fo),
            1 => fw::<f64, F>(f64::from_bits(c.value as u64), &fo),
            2 => fw::<i64, F>(c.value as i64, &io),
            3 => fw::<u8, F>(c.value as u8, &io),
            4 => fw::<u64, F>(c.value as u64, &io),
            5 => fw::<u128, F>(c.value, &io),
            _ => fw::<i32, F>(c.value as i32, &io),
        }
    });
    let desc = |what: String| Fail::new(format!("facade format {name} type {} value {:#x} options {}: {}", ["f32", "f64", "i64", "u8", "u64", "u128", "i32"][(c.ty as usize).min(6)], c.value, c.opts.to_json(), what));
    match r {
        None => {
            l.class("skipped:bound-not-allocatable");
            Ok(())
        },
        Some((size, Ok(out))) => {
            l.nontrivial_hash(splitmix(c.value as u64 ^ hash_bytes(&c.opts.to_bytes()) ^ ((c.fmt as u64) << 50) ^ ((c.ty as u64) << 60)));
            if l.want_sample() {
                l.sample(wcase_json(c));
            }
            l.class(if size > lexical_core::BUFFER_SIZE { "bound>BUFFER_SIZE" } else { "bound<=BUFFER_SIZE" });
            if out.len() > size {
                return Err(desc(format!("lexical::to_string_with_options returned {} bytes, more than the bound {}", out.len(), size)));
            }
            Ok(())
        },
        Some((size, Err(p))) => Err(desc(format!("lexical::to_string_with_options, which allocates the documented bound ({size} bytes) itself, panicked: {p}"))),
    }
}

pub fn facade_case_strategy(extreme: bool) -> BoxedStrategy<WCase> {
    let nf = facade_formats().len();
    (0..nf, 0u8..7)
        .prop_flat_map(move |(fmt, ty)| {
            let m = FormatModel::decode(facade_formats()[fmt].1);
            let value: BoxedStrategy<u128> = match ty {
                0 => prop_oneof![10 => gen::finite_bits(vcore::flt::F32), 1 => Just(0x7f800000u64), 1 => Just(0x7fc00001u64), 1 => Just(0xff800000u64)].prop_map(|b| b as u128).boxed(),
                1 => prop_oneof![10 => gen::finite_bits(vcore::flt::F64), 1 => Just(0x7ff0000000000000u64), 1 => Just(0x7ff8000000000001u64), 1 => Just(0xfff0000000000000u64)].prop_map(|b| b as u128).boxed(),
                2 => gen::int_value(64, true, m.mantissa_radix()),
                3 => gen::int_value(8, false, m.mantissa_radix()),
                4 => gen::int_value(64, false, m.mantissa_radix()),
                5 => gen::int_value(128, false, m.mantissa_radix()),
                _ => gen::int_value(32, true, m.mantissa_radix()),
            };
            (value, wopts::strategy(&m, extreme)).prop_map(move |(value, opts)| WCase { fmt, ty, value, opts })
        })
        .boxed()
}

pub fn facade_case_json(c: &WCase) -> Value {
    wcase_json(c)
}

pub fn facade_case_from_json(case: &Value) -> Option<WCase> {
    let fmt = facade_formats().iter().position(|(n, _)| Some(*n) == case["facade_format"].as_str())?;
    let value = u128::from_str_radix(case["value"].as_str().unwrap_or("0x0").trim_start_matches("0x"), 16).unwrap_or(0);
    Some(WCase { fmt, ty: case["ty"].as_u64().unwrap_or(1) as u8, value, opts: WOpts::from_json(&case["options"]) })
}

fn check_facade_write(c: &WCase, l: &mut Local) -> CaseResult {
    let (name, packed) = facade_formats()[c.fmt];
    let m = FormatModel::decode(packed);
    l.eval(1);
    let fo = c.opts.to_lexical();
    if !fo.is_valid() {
        l.class("skipped:invalid-options");
        return Ok(());
    }
    let io = lexical_core::WriteIntegerOptions::new();
    let (core, facade) = dispatch_fmt!(name, F, {
        match c.ty {
            0 => wr::<f32, F>(f32::from_bits(c.value as u32), &fo),
            1 => wr::<f64, F>(f64::from_bits(c.value as u64), &fo),
            2 => wr::<i64, F>(c.value as i64, &io),
            3 => wr::<u8, F>(c.value as u8, &io),
            4 => wr::<u64, F>(c.value as u64, &io),
            5 => wr::<u128, F>(c.value, &io),
            _ => wr::<i32, F>(c.value as i32, &io),
        }
    });
    if name != "STANDARD" || c.opts != WOpts::default_for(&m) {
        l.nontrivial_hash(splitmix(c.value as u64 ^ hash_bytes(&c.opts.to_bytes()) ^ ((c.fmt as u64) << 50) ^ ((c.ty as u64) << 60)));
        if l.want_sample() {
            l.sample(wcase_json(c));
        }
    }
    let desc = |what: String| Fail::new(format!("facade format {name} type {} value {:#x} options {}: {}", ["f32", "f64", "i64", "u8", "u64", "u128", "i32"][(c.ty as usize).min(6)], c.value, c.opts.to_json(), what));
    match (&core, &facade) {
        (Ok(a), Ok(b)) => {
            if a != b {
                return Err(desc(format!("lexical::to_string_with_options gives {:?}, lexical_core::write_with_options gives {:?}", show(b), show(a))));
            }
            if a.iter().any(|&x| x >= 0x80) {
                return Err(desc(format!("output {:?} contains a non-ASCII byte", show(a))));
            }
            if std::str::from_utf8(b).is_err() {
                return Err(desc("the returned String is not valid UTF-8".into()));
            }
            l.class("both-ok");
        },
        (Err(_), Err(_)) => l.class("both-panic"),
        (a, b) => {
            return Err(desc(format!("lexical_core: {}; lexical: {}", if a.is_ok() { "returns" } else { "panics" }, if b.is_ok() { "returns" } else { "panics" })));
        },
    }
    Ok(())
}

/// default API: to_string vs write, parse vs parse
fn check_default_write<T>(v: T, l: &mut Local) -> CaseResult
where
    T: Copy + std::fmt::Debug + lexical_core::ToLexical + lexical_core::FormattedSize,
{
    l.eval(1);
    // the reference writes into a generous buffer: the facade sizes its own buffer from FORMATTED_SIZE_DECIMAL,
    // and a constant that is too small must not make both sides panic alike (seeded change C17-G). The default
    // API has no documented panic, so a panic on either side is a difference.
    let core = guard(|| {
        let mut buf = vec![b'0'; <T as lexical_core::FormattedSize>::FORMATTED_SIZE_DECIMAL.max(lexical_core::BUFFER_SIZE) + 64];
        let n = lexical_core::write(v, &mut buf).len();
        buf.truncate(n);
        buf
    });
    let facade = guard(|| lexical::to_string(v).into_bytes());
    match (&core, &facade) {
        (Ok(a), Ok(b)) if a == b && a.iter().all(|&x| x < 0x80) => Ok(()),
        (a, b) => Err(Fail::new(format!("to_string({v:?}): lexical_core {:?} vs lexical {:?}", a.as_ref().map(|x| show(x)), b.as_ref().map(|x| show(x))))),
    }
}

fn same_parse<T: PartialEq + std::fmt::Debug>(a: Result<lexical_core::Result<T>, String>, b: Result<lexical_core::Result<T>, String>, nan_eq: impl Fn(&T, &T) -> bool) -> Result<(), String> {
    match (&a, &b) {
        (Ok(Ok(x)), Ok(Ok(y))) if x == y || nan_eq(x, y) => Ok(()),
        (Ok(Err(x)), Ok(Err(y))) if x == y => Ok(()),
        (Err(_), Err(_)) => Ok(()),
        _ => Err(format!("lexical_core: {a:?}; lexical: {b:?}")),
    }
}

macro_rules! parse_both {
    ($t:ty, $text:expr, $l:expr, $naneq:expr, $po:expr, $fmtname:expr) => {{
        let text: &[u8] = $text;
        $l.eval(1);
        let r1 = same_parse(guard(|| lexical_core::parse::<$t>(text)), guard(|| lexical::parse::<$t, _>(text)), $naneq);
        let r2 = same_parse(guard(|| lexical_core::parse_partial::<$t>(text)), guard(|| lexical::parse_partial::<$t, _>(text)), |a: &($t, usize), b: &($t, usize)| a.1 == b.1 && ($naneq)(&a.0, &b.0));
        let (r3, r4) = dispatch_fmt!($fmtname, F, {
            (
                same_parse(guard(|| lexical_core::parse_with_options::<$t, F>(text, $po)), guard(|| lexical::parse_with_options::<$t, _, F>(text, $po)), $naneq),
                same_parse(guard(|| lexical_core::parse_partial_with_options::<$t, F>(text, $po)), guard(|| lexical::parse_partial_with_options::<$t, _, F>(text, $po)), |a: &($t, usize), b: &($t, usize)| a.1 == b.1 && ($naneq)(&a.0, &b.0)),
            )
        });
        for (api, r) in [("parse", r1), ("parse_partial", r2), ("parse_with_options", r3), ("parse_partial_with_options", r4)] {
            if let Err(e) = r {
                return Err(Fail::new(format!("{} {}({:?}) [facade format {}]: {}", stringify!($t), api, show(text), $fmtname, e)));
            }
        }
    }};
}

#[derive(Clone, Debug)]
pub struct PCase {
    pub fmt: usize,
    pub ty: u8,
    pub text: Vec<u8>,
}

fn pcase_json(c: &PCase) -> Value {
    json!({"kind": "facade-parse", "facade_format": facade_formats()[c.fmt].0, "ty": c.ty, "text": show(&c.text), "text_hex": hex(&c.text)})
}

fn check_facade_parse(c: &PCase, l: &mut Local) -> CaseResult {
    let (name, packed) = facade_formats()[c.fmt];
    let m = FormatModel::decode(packed);
    let ec = crate::c05::exp_char_for(&m);
    let fo = lexical_core::ParseFloatOptions::builder().exponent(ec).build_unchecked();
    let io = lexical_core::ParseIntegerOptions::new();
    if c.text.len() >= 2 {
        l.nontrivial_bytes(((c.fmt as u64) << 8) | c.ty as u64, &c.text);
        if l.want_sample() {
            l.sample(pcase_json(c));
        }
    }
    match c.ty {
        0 => parse_both!(f32, &c.text, l, |a: &f32, b: &f32| a.is_nan() && b.is_nan(), &fo, name),
        1 => parse_both!(f64, &c.text, l, |a: &f64, b: &f64| a.is_nan() && b.is_nan(), &fo, name),
        2 => parse_both!(i64, &c.text, l, |_: &i64, _: &i64| false, &io, name),
        3 => parse_both!(u8, &c.text, l, |_: &u8, _: &u8| false, &io, name),
        4 => parse_both!(u128, &c.text, l, |_: &u128, _: &u128| false, &io, name),
        _ => parse_both!(i16, &c.text, l, |_: &i16, _: &i16| false, &io, name),
    }
    Ok(())
}

/// (d) ASCII-only output of every compiled writer under valid options
#[derive(Clone, Debug)]
pub struct ACase {
    pub entry: usize,
    pub ty: Ty,
    pub value: u128,
    pub opts: WOpts,
}

fn acase_json(c: &ACase) -> Value {
    json!({"kind": "ascii", "format": cat().entries[c.entry].name, "type": c.ty.name(), "value": format!("{:#x}", c.value), "options": c.opts.to_json()})
}

fn check_ascii(c: &ACase, l: &mut Local) -> CaseResult {
    let e = &cat().entries[c.entry];
    l.eval(1);
    let out = match c.ty {
        Ty::Float(fi) => {
            let o = c.opts.to_lexical();
            if !o.is_valid() {
                return Ok(());
            }
            let k = kind_of(fi);
            let b = c.value as u64;
            if (k.is_nan(b) && c.opts.nan == usize::MAX) || (k.is_inf(b) && c.opts.inf == usize::MAX) {
                return Ok(());
            }
            match do_write(c.entry, fi, b, &o) {
                Ok(o) => o,
                Err(_) => return Ok(()), // panics are C09's / C15's business
            }
        },
        Ty::Int(ii) => {
            let (wi, bs) = e.wi[ii].expect("int writer");
            let o = lexical_core::WriteIntegerOptions::new();
            let mut buf = vec![0u8; bs(&o) + 1];
            match guard(|| wi(c.value, &mut buf, &o)) {
                Ok((off, n)) => buf[off..off + n].to_vec(),
                Err(_) => return Ok(()),
            }
        },
    };
    l.nontrivial_hash(splitmix(c.value as u64 ^ hash_bytes(&c.opts.to_bytes()) ^ ((c.entry as u64) << 44)));
    if let Some(b) = out.iter().find(|&&b| b >= 0x80) {
        return Err(Fail::new(format!("{} {} value {:#x} options {}: output {:?} contains the non-ASCII byte {:#04x}", c.ty.name(), e.name, c.value, c.opts.to_json(), show(&out), b)));
    }
    Ok(())
}

/// (e) ASCII-only output under *any* options the library's own validation accepts: raw bytes for
/// the punctuation and special strings that break the documented letter rule in one byte
#[derive(Clone, Debug)]
pub struct RCase {
    pub fi: usize,
    pub bits: u64,
    pub exponent: u8,
    pub point: u8,
    pub nan: usize,
    pub inf: usize,
}

fn rcase_json(c: &RCase) -> Value {
    let st = crate::c18::strs();
    json!({"kind": "ascii-raw", "type": FLOAT_NAMES[c.fi], "bits": format!("{:#x}", c.bits), "exponent": c.exponent, "point": c.point, "nan_idx": c.nan, "inf_idx": c.inf,
           "nan_string": st[c.nan % st.len()].map(show), "inf_string": st[c.inf % st.len()].map(show)})
}

fn check_ascii_raw(c: &RCase, l: &mut Local) -> CaseResult {
    let st = crate::c18::strs();
    let (nan, inf) = (st[c.nan % st.len()], st[c.inf % st.len()]);
    let b = lexical_core::WriteFloatOptions::builder().exponent(c.exponent).decimal_point(c.point).nan_string(nan).inf_string(inf);
    let o = b.build_unchecked();
    l.eval(1);
    // "valid options" are those the library accepts on either of its two paths: is_valid() or the checked build()
    let built_ok = b.build().is_ok();
    if built_ok != o.is_valid() {
        l.class("raw-options:is_valid-and-build-disagree");
    }
    if !o.is_valid() && !built_ok {
        l.class("raw-options:rejected-by-the-library");
        return Ok(());
    }
    l.class("raw-options:accepted-by-the-library");
    let k = kind_of(c.fi);
    if (k.is_nan(c.bits) && nan.is_none()) || (k.is_inf(c.bits) && inf.is_none()) {
        return Ok(());
    }
    l.nontrivial_hash(splitmix(c.bits ^ ((c.exponent as u64) << 56) ^ ((c.point as u64) << 48) ^ ((c.nan as u64 & 0xff) << 40) ^ ((c.inf as u64 & 0xff) << 32)) ^ c.fi as u64);
    if l.want_sample() {
        l.sample(rcase_json(c));
    }
    const STD: u128 = lexical_core::format::STANDARD;
    let (core, facade) = if c.fi == 0 { wr::<f32, STD>(f32::from_bits(c.bits as u32), &o) } else { wr::<f64, STD>(f64::from_bits(c.bits), &o) };
    for (which, r) in [("lexical_core::write_with_options", &core), ("lexical::to_string_with_options", &facade)] {
        if let Ok(out) = r {
            if let Some(b) = out.iter().find(|&&b| b >= 0x80) {
                return Err(Fail::new(format!(
                    "{} bits {:#x} with exponent {:#04x} point {:#04x} nan {:?} inf {:?} (accepted by WriteFloatOptions::is_valid or build): {which} emitted {:?} containing the non-ASCII byte {:#04x}",
                    FLOAT_NAMES[c.fi],
                    c.bits,
                    c.exponent,
                    c.point,
                    nan.map(show),
                    inf.map(show),
                    show(out),
                    b
                )));
            }
        }
    }
    Ok(())
}

macro_rules! default_writes {
    ($rep:ident, $ctx:ident, $n:expr, int: $($t:ident)*) => {$(
        run_prop($rep, $ctx, &format!("default-api:to_string:{}", stringify!($t)), $n, || gen::int_value(<$t as IntT>::BITS, <$t as IntT>::SIGNED, 10),
            |v| json!({"kind": "default-write", "type": stringify!($t), "value": format!("{:#x}", v)}),
            |v, l| { if l.want_sample() { l.sample(json!({"type": stringify!($t), "value": format!("{:#x}", v)})); } l.nontrivial_hash(splitmix(*v as u64 ^ (<$t as IntT>::BITS as u64) << 56)); check_default_write::<$t>(<$t as IntT>::from_u128(*v), l) });
    )*};
}

pub fn run(ctx: &Ctx, rep: &mut Report) {
    rep.rule = "cases: (a) default API: lexical::to_string vs lexical_core::write for the 12 integer types and f32/f64 over generated \
        values; (b) lexical::to_string_with_options vs lexical_core::write_with_options for the formats instantiated for the facade \
        (STANDARD; hexadecimal; radix 3; a required-sign format; C_HEX_STRING; a digits-optional format; octal and binary \
        mantissas with decimal exponent digits - as far as the build features allow) x {f32, f64, i64, u8, u64, u128, i32} x generated valid write options (digits, breaks, trim, round mode, punctuation incl. tab/space/~, special strings): bytes \
        equal, panic iff panic, String is valid UTF-8; (c) lexical::parse / parse_partial / parse_with_options / \
        parse_partial_with_options vs lexical_core on generated texts (numbers, mutations, raw bytes) for {f32, f64, i64, u8, u128, \
        i16}; (d) every compiled catalogue writer x generated values x valid options: every emitted byte is < 0x80; (e) the same for \
        raw option bytes (any punctuation byte, special strings that break the letter rule in one byte, e.g. a letter with the \
        high bit set) whenever WriteFloatOptions::is_valid() accepts them. non-trivial = \
        non-default options or a non-STANDARD format (b, d), a text of >= 2 bytes (c); distinct by hashing."
        .into();
    rep.assumptions = vec!["'valid options' = the options builder's is_valid() holds (ASCII punctuation, letter-only special strings)".into()];
    let n = ctx.n(40_000, 4_000_000);
    default_writes!(rep, ctx, n, int: u8 u16 u32 u64 u128 usize i8 i16 i32 i64 i128 isize);
    run_prop(rep, ctx, "default-api:to_string:f64", n * 3, || gen::finite_bits(vcore::flt::F64), |b| json!({"kind": "default-write", "type": "f64", "value": format!("{:#x}", b)}), |b, l| {
        l.nontrivial_hash(splitmix(*b));
        check_default_write::<f64>(f64::from_bits(*b), l)
    });
    run_prop(rep, ctx, "default-api:to_string:f32", n * 3, || gen::finite_bits(vcore::flt::F32), |b| json!({"kind": "default-write", "type": "f32", "value": format!("{:#x}", b)}), |b, l| {
        l.nontrivial_hash(splitmix(*b ^ 1 << 40));
        check_default_write::<f32>(f32::from_bits(*b as u32), l)
    });
    // (b)
    let nf = facade_formats().len();
    run_prop(
        rep,
        ctx,
        "facade:to_string_with_options",
        ctx.n(600_000, 12_000_000),
        move || {
            (0..nf, 0u8..7, any::<u16>())
                .prop_flat_map(move |(fmt, ty, _)| {
                    let m = FormatModel::decode(facade_formats()[fmt].1);
                    let value: BoxedStrategy<u128> = match ty {
                        0 => prop_oneof![10 => gen::finite_bits(vcore::flt::F32), 1 => Just(0x7f800000u64), 1 => Just(0x7fc00001u64), 1 => Just(0xff800000u64)].prop_map(|b| b as u128).boxed(),
                        1 => prop_oneof![10 => gen::finite_bits(vcore::flt::F64), 1 => Just(0x7ff0000000000000u64), 1 => Just(0x7ff8000000000001u64), 1 => Just(0xfff0000000000000u64)].prop_map(|b| b as u128).boxed(),
                        2 => gen::int_value(64, true, m.mantissa_radix()),
                        3 => gen::int_value(8, false, m.mantissa_radix()),
                        4 => gen::int_value(64, false, m.mantissa_radix()),
                        5 => gen::int_value(128, false, m.mantissa_radix()),
                        _ => gen::int_value(32, true, m.mantissa_radix()),
                    };
                    (value, wopts::strategy(&m, false)).prop_map(move |(value, opts)| WCase { fmt, ty, value, opts })
                })
                .boxed()
        },
        wcase_json,
        check_facade_write,
    );
    // (c)
    run_prop(
        rep,
        ctx,
        "facade:parse-entry-points",
        ctx.n(600_000, 12_000_000),
        move || {
            (0..nf, 0u8..6)
                .prop_flat_map(move |(fmt, ty)| {
                    let m = FormatModel::decode(facade_formats()[fmt].1);
                    let rx = m.radices();
                    let ec = crate::c05::exp_char_for(&m);
                    let base: BoxedStrategy<Vec<u8>> = if ty < 2 {
                        let k = kind_of(ty as usize);
                        prop_oneof![gen::midpoint_text(k, rx, b'.', ec).prop_map(|(t, _)| t), gen::grammar_text(rx, b'.', ec).prop_map(|(t, _)| t), gen::fastpath_text(k, rx, b'.', ec).prop_map(|(t, _)| t), Just(b"nan".to_vec()), Just(b"-inf".to_vec()), Just(b"Infinity".to_vec())].boxed()
                    } else {
                        let (bits, signed) = match ty {
                            2 => (64, true),
                            3 => (8, false),
                            4 => (128, false),
                            _ => (16, true),
                        };
                        gen::int_value(bits, signed, rx.mant).prop_map(move |v| gen::ref_numeral(v, bits, signed, rx.mant, false)).boxed()
                    };
                    // degenerate inputs: empty, bare sign / point / exponent (accepted by digits-optional formats)
                    let degenerate = prop_oneof![Just(b"".to_vec()), Just(b"+".to_vec()), Just(b"-".to_vec()), Just(b".".to_vec()), Just(vec![ec]), Just(b"+.".to_vec()), Just(vec![b'.', ec, b'1']), Just(vec![b'-', ec])];
                    let base = prop_oneof![12 => base, 1 => degenerate];
                    (base, proptest::collection::vec((any::<u16>(), any::<u8>()), 0..3), prop_oneof![3 => Just(None), 1 => any::<u8>().prop_map(Some)]).prop_map(move |(mut t, muts, tail)| {
                        if t.len() > 400 {
                            t.truncate(400);
                        }
                        for (p, b) in muts {
                            if !t.is_empty() {
                                let i = gen::pick(p, t.len());
                                t[i] = b;
                            }
                        }
                        if let Some(b) = tail {
                            t.push(b);
                        }
                        PCase { fmt, ty, text: t }
                    })
                })
                .boxed()
        },
        pcase_json,
        check_facade_parse,
    );
    // (d)
    let c = cat();
    let mut writers: Vec<(usize, Ty)> = Vec::new();
    for (i, e) in c.entries.iter().enumerate() {
        if !e.is_valid {
            continue;
        }
        for fi in 0..2 {
            if e.wf[fi].is_some() && c.models[i].float_radix_pair_ok() {
                writers.push((i, Ty::Float(fi)));
            }
        }
        for ii in [0usize, 4, 10] {
            if e.wi[ii].is_some() {
                writers.push((i, Ty::Int(ii)));
            }
        }
    }
    let w2 = writers.clone();
    run_prop(
        rep,
        ctx,
        "ascii-only:all-writers",
        ctx.n(1_000_000, 20_000_000),
        move || {
            let w = w2.clone();
            any::<u16>()
                .prop_flat_map(move |wi| {
                    let (entry, ty) = w[gen::pick(wi, w.len())];
                    let m = &cat().models[entry];
                    match ty {
                        Ty::Float(fi) => {
                            let k = kind_of(fi);
                            (prop_oneof![8 => gen::finite_bits(k), 1 => Just(k.inf_bits()), 1 => Just(k.inf_bits() | 5), 1 => Just(k.inf_bits() | k.sign_mask())], wopts::strategy(m, false)).prop_map(move |(b, opts)| ACase { entry, ty, value: b as u128, opts }).boxed()
                        },
                        Ty::Int(ii) => {
                            let d = WOpts::default_for(m);
                            gen::int_value(INT_BITS[ii], INT_SIGNED[ii], m.mantissa_radix()).prop_map(move |value| ACase { entry, ty, value, opts: d.clone() }).boxed()
                        },
                    }
                })
                .boxed()
        },
        acase_json,
        check_ascii,
    );
    // (e)
    run_prop(
        rep,
        ctx,
        "ascii-only:raw-options-the-library-accepts",
        ctx.n(400_000, 8_000_000),
        move || {
            let ns = crate::c18::strs().len();
            let punct = || prop_oneof![3 => prop_oneof![Just(b'e'), Just(b'.'), Just(b','), Just(b'^'), Just(b' '), Just(b'\t'), Just(b'~'), Just(b'p')], 2 => any::<u8>(), 1 => 0x7eu8..=0x82];
            // pool indices 0..9 are None / valid NaN strings, 9..17 valid infinity strings
            let nidx = prop_oneof![3 => 0usize..9, 2 => 0usize..ns];
            let iidx = prop_oneof![1 => 0usize..2, 3 => 9usize..17, 2 => 0usize..ns];
            (0usize..2, any::<u8>(), punct(), punct(), nidx, iidx)
                .prop_flat_map(|(fi, kind, exponent, point, nan, inf)| {
                    let k = kind_of(fi);
                    let bits = match kind % 8 {
                        0 | 1 => Just(k.inf_bits() | 1 | ((kind as u64 & 0x80) << (k.total_bits() - 8))).boxed(),
                        2 | 3 => Just(k.inf_bits() | ((kind as u64 & 0x80) << (k.total_bits() - 8))).boxed(),
                        _ => gen::finite_bits(k),
                    };
                    bits.prop_map(move |bits| RCase { fi, bits, exponent, point, nan, inf })
                })
                .boxed()
        },
        rcase_json,
        check_ascii_raw,
    );
}

pub fn replay(_ctx: &Ctx, case: &Value) -> CaseResult {
    let mut l = Local::new();
    let value = u128::from_str_radix(case["value"].as_str().unwrap_or("0x0").trim_start_matches("0x"), 16).unwrap_or(0);
    let ff = |name: &str| facade_formats().iter().position(|(n, _)| *n == name);
    match case["kind"].as_str() {
        Some("facade-write") => {
            let fmt = ff(case["facade_format"].as_str().unwrap_or("STANDARD")).ok_or_else(|| Fail::new("facade format not available in this configuration"))?;
            check_facade_write(&WCase { fmt, ty: case["ty"].as_u64().unwrap_or(1) as u8, value, opts: WOpts::from_json(&case["options"]) }, &mut l)
        },
        Some("facade-parse") => {
            let fmt = ff(case["facade_format"].as_str().unwrap_or("STANDARD")).ok_or_else(|| Fail::new("facade format not available in this configuration"))?;
            check_facade_parse(&PCase { fmt, ty: case["ty"].as_u64().unwrap_or(1) as u8, text: unhex(case["text_hex"].as_str().unwrap_or("")) }, &mut l)
        },
        Some("ascii-raw") => {
            let bits = u64::from_str_radix(case["bits"].as_str().unwrap_or("0x0").trim_start_matches("0x"), 16).unwrap_or(0);
            let u = |k: &str| case[k].as_u64().unwrap_or(0);
            check_ascii_raw(&RCase { fi: if case["type"].as_str() == Some("f32") { 0 } else { 1 }, bits, exponent: u("exponent") as u8, point: u("point") as u8, nan: u("nan_idx") as usize, inf: u("inf_idx") as usize }, &mut l)
        },
        Some("ascii") => {
            let entry = cat().idx(case["format"].as_str().unwrap_or("STANDARD")).ok_or_else(|| Fail::new("format not compiled"))?;
            check_ascii(&ACase { entry, ty: Ty::from_name(case["type"].as_str().unwrap_or("f64")), value, opts: WOpts::from_json(&case["options"]) }, &mut l)
        },
        _ => {
            macro_rules! d {
                ($($t:ident)*) => { match case["type"].as_str().unwrap_or("") { $(stringify!($t) => check_default_write::<$t>(<$t as IntT>::from_u128(value), &mut l),)* "f64" => check_default_write::<f64>(f64::from_bits(value as u64), &mut l), "f32" => check_default_write::<f32>(f32::from_bits(value as u32), &mut l), _ => Ok(()) } };
            }
            d!(u8 u16 u32 u64 u128 usize i8 i16 i32 i64 i128 isize)
        },
    }
}
