//! Thin typed wrappers around the public lexical-core / lexical API used by the checks.

use lexical_core::Error;
use vcore::flt::{FloatKind, F32, F64};
use vcore::report::guard;

pub fn config_name() -> String {
    let mut v: Vec<&str> = Vec::new();
    if cfg!(feature = "compact") {
        v.push("compact");
    }
    if cfg!(feature = "radix") {
        v.push("radix");
    } else if cfg!(feature = "power-of-two") {
        v.push("pow2");
    }
    if cfg!(feature = "format") {
        v.push("format");
    }
    if !cfg!(feature = "std") {
        v.push("nostd");
    }
    if v.is_empty() {
        "default".to_string()
    } else {
        v.join("+")
    }
}

pub fn profile_name() -> &'static str {
    if cfg!(debug_assertions) {
        "checked"
    } else {
        "release"
    }
}

/// Outcome of a parse call, normalised for comparison/serialisation.
#[derive(Clone, Debug, PartialEq, Eq)]
pub enum POut {
    /// value bits (floats: IEEE bits, NaN canonicalised; ints: two's complement in u128), consumed
    Ok(u128, usize),
    Err(String, Option<usize>),
    Panic(String),
}

impl POut {
    pub fn show(&self) -> String {
        match self {
            POut::Ok(b, n) => format!("Ok(bits={b:#x}, n={n})"),
            POut::Err(k, Some(i)) => format!("Err({k}({i}))"),
            POut::Err(k, None) => format!("Err({k})"),
            POut::Panic(m) => format!("PANIC({m})"),
        }
    }
    pub fn is_ok(&self) -> bool {
        matches!(self, POut::Ok(..))
    }
}

pub fn err_kind(e: &Error) -> String {
    let s = format!("{e:?}");
    match s.find('(') {
        Some(i) => s[..i].to_string(),
        None => s,
    }
}

pub fn err_out(e: &Error) -> POut {
    POut::Err(err_kind(e), e.index().copied())
}

pub trait FloatT:
    Copy
    + Send
    + Sync
    + 'static
    + lexical_core::FromLexical
    + lexical_core::ToLexical
    + lexical_core::FormattedSize
    + lexical_core::FromLexicalWithOptions<Options = lexical_core::ParseFloatOptions>
    + lexical_core::ToLexicalWithOptions<Options = lexical_core::WriteFloatOptions>
{
    const KIND: FloatKind;
    const NAME: &'static str;
    fn bits64(self) -> u64;
    fn from_bits64(b: u64) -> Self;
    fn std_parse(s: &str) -> Option<Self>;
    fn is_nan_(self) -> bool;
}

impl FloatT for f64 {
    const KIND: FloatKind = F64;
    const NAME: &'static str = "f64";
    fn bits64(self) -> u64 {
        self.to_bits()
    }
    fn from_bits64(b: u64) -> f64 {
        f64::from_bits(b)
    }
    fn std_parse(s: &str) -> Option<f64> {
        s.parse::<f64>().ok()
    }
    fn is_nan_(self) -> bool {
        self.is_nan()
    }
}

impl FloatT for f32 {
    const KIND: FloatKind = F32;
    const NAME: &'static str = "f32";
    fn bits64(self) -> u64 {
        self.to_bits() as u64
    }
    fn from_bits64(b: u64) -> f32 {
        f32::from_bits(b as u32)
    }
    fn std_parse(s: &str) -> Option<f32> {
        s.parse::<f32>().ok()
    }
    fn is_nan_(self) -> bool {
        self.is_nan()
    }
}

/// canonical bits for comparison: all NaNs map to one value
pub fn canon_bits<F: FloatT>(f: F) -> u128 {
    if f.is_nan_() {
        u128::MAX
    } else {
        f.bits64() as u128
    }
}

pub fn fout<F: FloatT>(r: Result<lexical_core::Result<F>, String>, len: usize) -> POut {
    match r {
        Ok(Ok(v)) => POut::Ok(canon_bits(v), len),
        Ok(Err(e)) => err_out(&e),
        Err(p) => POut::Panic(p),
    }
}

pub fn fpout<F: FloatT>(r: Result<lexical_core::Result<(F, usize)>, String>) -> POut {
    match r {
        Ok(Ok((v, n))) => POut::Ok(canon_bits(v), n),
        Ok(Err(e)) => err_out(&e),
        Err(p) => POut::Panic(p),
    }
}

/// default-API complete parse
pub fn parse_f<F: FloatT>(b: &[u8]) -> POut {
    fout::<F>(guard(|| lexical_core::parse::<F>(b)), b.len())
}
pub fn parse_partial_f<F: FloatT>(b: &[u8]) -> POut {
    fpout::<F>(guard(|| lexical_core::parse_partial::<F>(b)))
}

pub trait IntT: Copy + Send + Sync + 'static + std::fmt::Display + lexical_core::FromLexical + lexical_core::ToLexical + lexical_core::FormattedSize + lexical_core::FromLexicalWithOptions<Options = lexical_core::ParseIntegerOptions> + lexical_core::ToLexicalWithOptions<Options = lexical_core::WriteIntegerOptions> {
    const NAME: &'static str;
    const BITS: u32;
    const SIGNED: bool;
    /// two's complement, sign-extended to 128 bits
    fn to_u128(self) -> u128;
    fn from_u128(x: u128) -> Self;
    fn min_i(self) -> i128 {
        0
    }
}

macro_rules! int_impl {
    ($($t:ident $signed:expr;)*) => {$(
        impl IntT for $t {
            const NAME: &'static str = stringify!($t);
            const BITS: u32 = <$t>::BITS;
            const SIGNED: bool = $signed;
            fn to_u128(self) -> u128 { self as i128 as u128 }
            fn from_u128(x: u128) -> Self { x as $t }
        }
    )*};
}
int_impl! { u8 false; u16 false; u32 false; u64 false; usize false; i8 true; i16 true; i32 true; i64 true; i128 true; isize true; }
impl IntT for u128 {
    const NAME: &'static str = "u128";
    const BITS: u32 = 128;
    const SIGNED: bool = false;
    fn to_u128(self) -> u128 {
        self
    }
    fn from_u128(x: u128) -> Self {
        x
    }
}

pub fn iout<T: IntT>(r: Result<lexical_core::Result<T>, String>, len: usize) -> POut {
    match r {
        Ok(Ok(v)) => POut::Ok(v.to_u128(), len),
        Ok(Err(e)) => err_out(&e),
        Err(p) => POut::Panic(p),
    }
}
pub fn ipout<T: IntT>(r: Result<lexical_core::Result<(T, usize)>, String>) -> POut {
    match r {
        Ok(Ok((v, n))) => POut::Ok(v.to_u128(), n),
        Ok(Err(e)) => err_out(&e),
        Err(p) => POut::Panic(p),
    }
}

pub fn hex(b: &[u8]) -> String {
    b.iter().map(|x| format!("{x:02x}")).collect()
}
pub fn unhex(s: &str) -> Vec<u8> {
    (0..s.len() / 2).map(|i| u8::from_str_radix(&s[2 * i..2 * i + 2], 16).unwrap()).collect()
}
/// printable rendering for messages
pub fn show(b: &[u8]) -> String {
    let s: String = b.iter().map(|&c| if (0x20..0x7f).contains(&c) { (c as char).to_string() } else { format!("\\x{c:02x}") }).collect();
    if s.len() > 160 {
        format!("{}…({} bytes)", &s[..160], b.len())
    } else {
        s
    }
}
