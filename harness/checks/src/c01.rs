//! C01 — decimal string -> float is correctly rounded (default API, every build config).

use crate::lex::*;
use proptest::prelude::*;
use serde_json::{json, Value};
use vcore::flt::FloatKind;
use vcore::gen;
use vcore::numtext::{read_number, round_parts, NumParts, Radices};
use vcore::report::*;

pub const JUNK: [u8; 7] = [b' ', b'x', b'_', b'$', 0, 0xff, b','];

#[derive(Clone, Debug)]
pub struct Case {
    pub text: Vec<u8>,
    pub class: &'static str,
    pub junk: u8,
}

pub fn case_json(c: &Case, ty: &str) -> Value {
    json!({"type": ty, "text": show(&c.text), "text_hex": hex(&c.text), "class": c.class, "junk": c.junk})
}

/// significant digit count and scientific exponent (decimal) of parts
pub fn sig_info(p: &NumParts) -> (usize, i128) {
    let mut d: Vec<u8> = p.int.clone();
    d.extend_from_slice(&p.frac);
    let first = d.iter().position(|&x| x != 0);
    let first = match first {
        None => return (0, 0),
        Some(i) => i,
    };
    let last = d.iter().rposition(|&x| x != 0).unwrap();
    let mut e: i128 = 0;
    for &x in &p.exp {
        e = (e * 10 + x as i128).min(1i128 << 100);
    }
    if p.exp_neg {
        e = -e;
    }
    // scientific exponent: position of first significant digit relative to the point
    let sci = p.int.len() as i128 - 1 - first as i128 + e;
    (last - first + 1, sci)
}

pub fn expected_bits(k: FloatKind, p: &NumParts, rx: Radices) -> (u64, vcore::flt::Rounded) {
    let r = round_parts(k, p, rx);
    let bits = if p.neg { r.bits | k.sign_mask() } else { r.bits };
    (bits, r)
}

pub fn check_text<F: FloatT>(c: &Case, l: &mut Local) -> CaseResult {
    let k = F::KIND;
    let text = &c.text[..];
    let (parts, _info) = match read_number(text, Radices::DECIMAL, b'.', b'e', true) {
        Some(x) => x,
        None => return Err(Fail::new(format!("generator produced text outside the grammar: {}", show(text)))),
    };
    let (exp_bits, rounded) = expected_bits(k, &parts, Radices::DECIMAL);
    l.eval(1);
    l.class(c.class);
    // non-trivial rule
    let (nsig, sci) = sig_info(&parts);
    let (dlim, elim) = if k.p == 53 { (15usize, 22i128) } else { (7usize, 10i128) };
    let special_result = k.is_subnormal_or_zero(exp_bits) && nsig > 0 || k.is_inf(exp_bits);
    let nontrivial = nsig > dlim || sci.abs() > elim || special_result;
    if nontrivial {
        l.nontrivial_bytes(k.p as u64, text);
        l.class(match rounded.hard_bits {
            0..=2 => "hardness:easy",
            3..=8 => "hardness:close",
            _ => {
                if rounded.tie {
                    "hardness:exact-tie"
                } else {
                    "hardness:within-2^-61"
                }
            },
        });
        l.class(if nsig <= 19 {
            "digits:<=19"
        } else if nsig <= 768 {
            "digits:20-768"
        } else {
            "digits:>768"
        });
        if special_result {
            l.class("result:subnormal/zero/inf");
        }
        if l.want_sample() {
            l.sample(case_json(c, F::NAME));
        }
    }
    let want = POut::Ok(exp_bits as u128, text.len());
    let ctxmsg = |api: &str, got: &POut| {
        Fail::new(format!(
            "{} {}({}) = {} but the correctly rounded value is bits={:#x} [class {}]",
            F::NAME,
            api,
            show(text),
            got.show(),
            exp_bits,
            c.class
        ))
    };
    let got = parse_f::<F>(text);
    if got != want {
        return Err(ctxmsg("parse", &got));
    }
    let got = parse_partial_f::<F>(text);
    if got != want {
        return Err(ctxmsg("parse_partial", &got));
    }
    // with trailing junk the partial parser must stop after the number
    let mut t2 = text.to_vec();
    t2.push(c.junk);
    let got = parse_partial_f::<F>(&t2);
    if got != want {
        return Err(ctxmsg(&format!("parse_partial[+junk {:#04x}]", c.junk), &got));
    }
    // explicit STANDARD format through the options API must agree with the default API
    {
        const STD: u128 = lexical_core::format::STANDARD;
        let opts = lexical_core::ParseFloatOptions::new();
        let got = fout::<F>(guard(|| lexical_core::parse_with_options::<F, STD>(text, &opts)), text.len());
        if got != want {
            return Err(ctxmsg("parse_with_options<STANDARD>", &got));
        }
        let got = fpout::<F>(guard(|| lexical_core::parse_partial_with_options::<F, STD>(&t2, &opts)));
        if got != want {
            return Err(ctxmsg("parse_partial_with_options<STANDARD>[+junk]", &got));
        }
    }
    // secondary oracle: std (never deciding)
    if let Ok(s) = std::str::from_utf8(text) {
        if let Some(v) = F::std_parse(s) {
            if v.bits64() != exp_bits {
                l.class("ORACLE-DISCREPANCY:std-vs-exact");
            }
        }
    }
    Ok(())
}

fn strategy(k: FloatKind) -> BoxedStrategy<Case> {
    let rx = Radices::DECIMAL;
    let text = prop_oneof![
        8 => gen::midpoint_text(k, rx, b'.', b'e'),
        3 => gen::value_text(k, rx, b'.', b'e'),
        5 => gen::grammar_text(rx, b'.', b'e'),
        3 => gen::fastpath_text(k, rx, b'.', b'e'),
        1 => gen::range_edge_text(k, rx, b'.', b'e'),
        1 => gen::beyond_range_text(k, rx, b'.', b'e'),
        1 => gen::limb_aligned_text(k, rx, b'.', b'e'),
    ];
    (text, any::<u16>()).prop_map(|((text, class), j)| Case { text, class, junk: JUNK[gen::pick(j, JUNK.len())] }).boxed()
}

/// Stratified sweep over every decimal exponent: for each scientific exponent q and each of a
/// few mantissa shapes, build strings `d.ddd e q` whose digits come from midpoints of floats in
/// the binade(s) that q maps to. Enumeration over q; mantissas derived deterministically.
fn row_sweep<F: FloatT>(rep: &mut Report, ctx: &Ctx, per_row: u64) {
    let k = F::KIND;
    // scientific decimal exponents of finite floats
    let (qlo, qhi): (i64, i64) = if k.p == 53 { (-343, 309) } else { (-65, 39) };
    let rows: Vec<i64> = (qlo..=qhi).collect();
    let sub = format!("{}:row-sweep", F::NAME);
    let n_chunks = rows.len();
    run_enum(rep, ctx, &sub, n_chunks, |ci, l, viol| {
        let q = rows[ci];
        // float magnitudes whose decimal exponent is about q: value ~ 10^q -> binary exponent
        let lg2 = (q as f64) * std::f64::consts::LOG2_10;
        for j in 0..per_row {
            let h = splitmix(mix(ctx.seed, &["c01-row", F::NAME]) ^ ((q as u64) << 20) ^ j);
            // pick binary exponent near lg2 (+0..3) and a mantissa pattern
            let e2 = lg2.floor() as i64 + (h % 4) as i64;
            let biased = e2 + k.bias();
            let mant = match (h >> 8) % 5 {
                0 => 0,
                1 => k.mant_mask(),
                2 => 1,
                _ => splitmix(h) & k.mant_mask(),
            };
            let bits = if biased <= 0 {
                // subnormal region: shift a mantissa
                let sh = (1 - biased).min(k.p as i64 - 1) as u32;
                ((1u64 << (k.p - 1)) | mant) >> sh
            } else if biased as u64 >= k.max_exp_field() {
                k.max_finite_bits()
            } else {
                ((biased as u64) << (k.p - 1)) | mant
            };
            let (canon, _) = gen::midpoint_canon(k, Radices::DECIMAL, bits.min(k.max_finite_bits()), 0);
            // variants: exact, truncated at 17/19/20/30 digits, truncated+1
            for var in 0..6u32 {
                let pt = match var {
                    0 => gen::Perturb::Exact,
                    1 => gen::Perturb::Truncate(((h >> 16) & 0xffff) as u16),
                    2 => gen::Perturb::TruncateUp(((h >> 24) & 0xffff) as u16),
                    3 => gen::Perturb::Above(((h >> 32) % 30) as u8),
                    4 => gen::Perturb::Below(((h >> 40) % 30) as u8),
                    _ => gen::Perturb::Truncate(((h >> 44) & 0xffff) as u16),
                };
                let mut c2 = gen::apply_perturb(&canon, Radices::DECIMAL, &pt);
                c2.neg = (h >> 50) & 1 == 1;
                let lay = gen::Layout {
                    point: 0,
                    style: 1,
                    lead_zeros: 0,
                    trail_zeros: 0,
                    exp_lead_zeros: 0,
                    exp_plus: false,
                    plus: false,
                    upper_exp: false,
                    bare_point: false,
                    lower_digits: false,
                };
                let text = gen::render_canon(&c2, Radices::DECIMAL, b'.', b'e', &lay);
                let case = Case { text, class: "row-sweep", junk: b' ' };
                // enumeration cases are counted as distinct via hashing too (variants may collide)
                if let Err(f) = check_text::<F>(&case, l) {
                    if filter_known(ctx, l, &f) {
                        viol.push((f.message, case_json(&case, F::NAME)));
                        return;
                    }
                }
            }
        }
        l.class_n("rows-covered", 1);
    });
}

pub fn run(ctx: &Ctx, rep: &mut Report) {
    rep.rule = "cases: decimal strings from (a) exact expansions of float midpoints and float values, \
        truncated/perturbed/re-laid-out, (b) grammar-random strings incl. thousands of digits and >i64 exponents, \
        (c) fast-path region d*10^e, (d) range edges, (e) a per-decimal-exponent stratified sweep; each string is \
        parsed via parse, parse_partial, parse_partial+junk and the STANDARD options API for f32 or f64 and compared \
        bit-exactly with an exact big-rational rounding oracle. non-trivial = more than 15 (f64) / 7 (f32) \
        significant digits, or |scientific exponent| > 22 / 10, or a zero/subnormal/infinite result of non-zero \
        digits; distinct = distinct (type, text)."
        .into();
    rep.assumptions = vec![
        "oracle: own big-integer rational rounding (vcore::flt::round_rat), cross-checked against std and Python at setup".into(),
        "inputs are inside the grammar [+-]digits[.digits][(e|E)[+-]digits] with at least one mantissa digit".into(),
    ];
    let n = ctx.n(150_000, 20_000_000);
    run_prop(rep, ctx, "f64:generated", n, || strategy(f64::KIND), |c| case_json(c, "f64"), |c, l| check_text::<f64>(c, l));
    run_prop(rep, ctx, "f32:generated", n, || strategy(f32::KIND), |c| case_json(c, "f32"), |c, l| check_text::<f32>(c, l));
    let per_row = ctx.n(4, 300);
    row_sweep::<f64>(rep, ctx, per_row);
    row_sweep::<f32>(rep, ctx, per_row * 4);
    binade_sweep::<f64>(rep, ctx);
    binade_sweep::<f32>(rep, ctx);
}

/// significand sizes (bits) of the binade sweeps: 1-2 digits, ~3, ~6, ~10, ~17, ~21 and ~40 decimal digits
pub const SIG_BITS: [u32; 7] = [4, 9, 20, 33, 56, 70, 133];

/// every binade from 400 below the smallest subnormal to 400 above the largest finite value (the exact answer
/// outside the range is a signed zero or infinity; one wrong shift count or table index is confined to one binade)
fn binade_sweep<F: FloatT>(rep: &mut Report, ctx: &Ctx) {
    let k = F::KIND;
    let lo = 1 - k.bias() - (k.p as i64 - 1) - 400;
    let hi = (k.max_exp_field() as i64 - 1) - k.bias() + 400;
    let per = ctx.n(7, 56);
    let n_chunks = 32usize;
    run_enum(rep, ctx, if k.p == 53 { "f64:binade-sweep" } else { "f32:binade-sweep" }, n_chunks, |w, l, viol| {
        let mut e2 = lo + w as i64;
        while e2 <= hi {
            let mut h = mix(ctx.seed, &["c01-binade", &e2.to_string()]);
            for i in 0..per {
                h = splitmix(h);
                let m = match i {
                    0 => 1u64 << 52,
                    1 => (1u64 << 53) - 1,
                    _ => (1u64 << 52) | (h >> 12),
                };
                // value m * 2^(e2 - 52): leading bit at 2^e2
                let text = gen::binade_text(Radices::DECIMAL, m, e2 - 52, b'.', if h & 1 == 0 { b'e' } else { b'E' }, h & 2 != 0, SIG_BITS[(i as usize + (h >> 20) as usize) % SIG_BITS.len()]);
                let c = Case { text, class: "binade-sweep", junk: JUNK[(h >> 8) as usize % JUNK.len()] };
                if let Err(f) = check_text::<F>(&c, l) {
                    if filter_known(ctx, l, &f) {
                        viol.push((f.message, case_json(&c, k.name)));
                        return;
                    }
                }
            }
            e2 += n_chunks as i64;
        }
    });
}

pub fn replay(_ctx: &Ctx, case: &Value) -> CaseResult {
    let text = unhex(case["text_hex"].as_str().unwrap_or(""));
    let junk = case["junk"].as_u64().unwrap_or(32) as u8;
    let c = Case { text, class: "replay", junk };
    let mut l = Local::new();
    match case["type"].as_str() {
        Some("f32") => check_text::<f32>(&c, &mut l),
        _ => check_text::<f64>(&c, &mut l),
    }
}
