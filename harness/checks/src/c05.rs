//! C05 — non-decimal radix string -> float is correctly rounded; C19 — lossy parsing.
//! Both use catalogue formats of the `core` group through the options API.

use crate::c01::{sig_info, JUNK};
use crate::cat::cat;
use crate::lex::*;
use catalogue::FLOAT_NAMES;
use proptest::prelude::*;
use serde_json::{json, Value};
use vcore::flt::{FloatKind, F32, F64};
use vcore::fmodel::FormatModel;
use vcore::gen;
use vcore::numtext::{read_number, round_parts, NumParts, Radices};
use vcore::report::*;

pub fn kind_of(ty: usize) -> FloatKind {
    if ty == 0 {
        F32
    } else {
        F64
    }
}

/// exponent character used for a format: never a digit of either radix
pub fn exp_char_for(m: &FormatModel) -> u8 {
    let maxr = m.mantissa_radix().max(m.exponent_radix());
    if maxr >= 15 {
        if m.mantissa_radix() == 16 && m.exponent_base() != 16 && m.exponent_radix() <= 16 {
            b'p'
        } else {
            b'^'
        }
    } else {
        b'e'
    }
}

#[derive(Clone, Debug)]
pub struct Job {
    pub entry: usize,
    pub ty: usize,
}

#[derive(Clone, Debug)]
pub struct Case {
    pub text: Vec<u8>,
    pub class: &'static str,
    pub junk: u8,
}

pub fn case_json(j: &Job, c: &Case) -> Value {
    let e = &cat().entries[j.entry];
    json!({"format": e.name, "type": FLOAT_NAMES[j.ty], "text": show(&c.text), "text_hex": hex(&c.text), "class": c.class, "junk": c.junk})
}

pub fn strategy(k: FloatKind, rx: Radices, ec: u8) -> BoxedStrategy<Case> {
    let text = prop_oneof![
        8 => gen::midpoint_text(k, rx, b'.', ec),
        3 => gen::value_text(k, rx, b'.', ec),
        5 => gen::grammar_text(rx, b'.', ec),
        3 => gen::fastpath_text(k, rx, b'.', ec),
        1 => gen::range_edge_text(k, rx, b'.', ec),
        1 => gen::beyond_range_text(k, rx, b'.', ec),
        1 => gen::limb_aligned_text(k, rx, b'.', ec),
    ];
    (text, any::<u16>()).prop_map(|((text, class), j)| Case { text, class, junk: JUNK[gen::pick(j, JUNK.len())] }).boxed()
}

pub fn float_call(pf: catalogue::PF, text: &[u8], o: &lexical_core::ParseFloatOptions, k: FloatKind) -> POut {
    match guard(|| pf(text, o)) {
        Ok(Ok(b)) => POut::Ok(if k.is_nan(b) { u128::MAX } else { b as u128 }, text.len()),
        Ok(Err(e)) => err_out(&e),
        Err(p) => POut::Panic(p),
    }
}
pub fn float_call_partial(pfp: catalogue::PFP, text: &[u8], o: &lexical_core::ParseFloatOptions, k: FloatKind) -> POut {
    match guard(|| pfp(text, o)) {
        Ok(Ok((b, n))) => POut::Ok(if k.is_nan(b) { u128::MAX } else { b as u128 }, n),
        Ok(Err(e)) => err_out(&e),
        Err(p) => POut::Panic(p),
    }
}

/// is the input decided by exact native arithmetic (a subset of the library's fast path)?
fn exact_fast_path(k: FloatKind, p: &NumParts, rx: Radices) -> bool {
    let mut digits: Vec<u8> = p.int.clone();
    digits.extend_from_slice(&p.frac);
    let first = match digits.iter().position(|&d| d != 0) {
        None => return true,
        Some(i) => i,
    };
    let sig = &digits[first..];
    // fits in u64 without truncation
    let mut v: u64 = 0;
    for &d in sig {
        v = match v.checked_mul(rx.mant as u64).and_then(|x| x.checked_add(d as u64)) {
            Some(x) => x,
            None => return false,
        };
    }
    if v > (1u64 << k.p) {
        return false;
    }
    let kk = rx.digits_per_base().unwrap() as i128;
    let mut e: i128 = 0;
    for &d in &p.exp {
        e = (e * rx.exp as i128 + d as i128).min(1 << 40);
    }
    if p.exp_neg {
        e = -e;
    }
    let big_e = e - kk * p.frac.len() as i128;
    // exactly representable powers of the base: odd part ^ |E| < 2^p
    let odd = (rx.base >> rx.base.trailing_zeros()) as u128;
    if odd == 1 {
        // power-of-two base: exact scaling as long as the result is a normal float
        return big_e.abs() < 60;
    }
    let mut pw: u128 = 1;
    for _ in 0..big_e.unsigned_abs().min(200) {
        pw = pw.saturating_mul(odd);
        if pw >= (1u128 << k.p) {
            return false;
        }
    }
    // total power base^|E| must be exactly representable: base^|E| = odd^|E| * 2^(tz*|E|)
    true
}

pub fn check(j: &Job, c: &Case, l: &mut Local, lossy_mode: bool) -> CaseResult {
    let e = &cat().entries[j.entry];
    let m = &cat().models[j.entry];
    let k = kind_of(j.ty);
    let rx = m.radices();
    let ec = exp_char_for(m);
    let (pf, pfp) = match e.pf[j.ty] {
        Some(x) => x,
        None => return Err(Fail::new(format!("no float parser compiled for {} {}", e.name, FLOAT_NAMES[j.ty]))),
    };
    let text = &c.text[..];
    let (parts, _) = match read_number(text, rx, b'.', ec, true) {
        Some(x) => x,
        None => return Err(Fail::new(format!("generator produced text outside the grammar: {}", show(text)))),
    };
    let r = round_parts(k, &parts, rx);
    let exp_bits = if parts.neg { r.bits | k.sign_mask() } else { r.bits };
    let opts = lexical_core::ParseFloatOptions::builder().exponent(ec).decimal_point(b'.').build_unchecked();
    l.eval(1);
    l.class(c.class);
    let (nsig, _sci) = sig_info(&parts);
    // digits that fit a u64 in this radix
    let mut step = 0usize;
    let mut pw = 1u64;
    while pw.checked_mul(rx.mant as u64).is_some() {
        pw *= rx.mant as u64;
        step += 1;
    }
    let special_result = (k.is_subnormal_or_zero(exp_bits) && nsig > 0) || k.is_inf(exp_bits);
    let nontrivial = nsig > step || r.hard_bits >= 3 || special_result;
    if nontrivial {
        l.nontrivial_bytes(((j.entry as u64) << 8) | j.ty as u64 | ((lossy_mode as u64) << 40), text);
        l.class(&format!("radix{}/{}:{}", rx.mant, rx.base, if nsig > step { ">u64-digits" } else if special_result { "subnormal/zero/inf" } else { "near-boundary" }));
        if r.tie {
            l.class("exact-tie");
        }
        if l.want_sample() {
            l.sample(case_json(j, c));
        }
    }
    let want = POut::Ok(exp_bits as u128, text.len());
    let mut t2 = text.to_vec();
    // the junk byte must not be able to extend the number
    let junk = if vcore::numtext::digit_val(c.junk, rx.mant.max(rx.exp)).is_some() || c.junk == ec { b' ' } else { c.junk };
    t2.push(junk);
    let desc = |api: &str, got: &POut, what: &str| {
        format!("{} {} [{}] {}({:?}) = {} but {} bits={:#x} [class {}]", FLOAT_NAMES[j.ty], e.name, m.describe(), api, show(text), got.show(), what, exp_bits, c.class)
    };
    if !lossy_mode {
        let got = float_call(pf, text, &opts, k);
        if got != want {
            return Err(Fail::new(desc("parse", &got, "the correctly rounded value is")));
        }
        let got = float_call_partial(pfp, text, &opts, k);
        if got != want {
            return Err(Fail::new(desc("parse_partial", &got, "the correctly rounded value is")));
        }
        let got = float_call_partial(pfp, &t2, &opts, k);
        if got != want {
            return Err(Fail::new(desc(&format!("parse_partial[+junk {:#04x}]", c.junk), &got, "the correctly rounded value is")));
        }
        return Ok(());
    }
    // ---- C19: lossy vs non-lossy ----
    let lopts = lexical_core::ParseFloatOptions::builder().exponent(ec).decimal_point(b'.').lossy(true).build_unchecked();
    let fast = exact_fast_path(k, &parts, rx);
    if fast {
        l.class("exact-fast-path");
    }
    for (api, exact_out, lossy_out) in [
        ("parse", float_call(pf, text, &opts, k), float_call(pf, text, &lopts, k)),
        ("parse_partial[+junk]", float_call_partial(pfp, &t2, &opts, k), float_call_partial(pfp, &t2, &lopts, k)),
    ] {
        match (&exact_out, &lossy_out) {
            (POut::Ok(_, n1), POut::Ok(lb, n2)) => {
                if n1 != n2 {
                    return Err(Fail::new(desc(api, &lossy_out, &format!("non-lossy consumed {n1} bytes; correctly rounded"))));
                }
                if *lb == u128::MAX {
                    return Err(Fail::new(desc(api, &lossy_out, "lossy produced NaN for a numeric input; correctly rounded")));
                }
                let lb = *lb as u64;
                if k.is_negative(lb) != parts.neg {
                    return Err(Fail::new(desc(api, &lossy_out, "lossy changed the sign; correctly rounded")));
                }
                let lm = k.abs(lb);
                let cm = r.bits;
                let diff = if lm > cm { lm - cm } else { cm - lm };
                // zero / infinity: unchanged, except in the last rounding zone next to the range end
                // (the statement's "neighbour" clause and "unchanged" clause both apply there, so
                // both outcomes are accepted for a value in [MAX, MAX+ulp); zero stays zero)
                let boundary_zone = match vcore::numtext::exact_value(&parts, rx) {
                    vcore::numtext::Exact::Val(v) => {
                        if cm == k.inf_bits() {
                            let (_, q) = k.decode(k.max_finite_bits());
                            v.cmp_m_q(1u128 << k.p, q) == std::cmp::Ordering::Less
                        } else {
                            // a result of zero is exact in the non-lossy parser for every value up to
                            // half the smallest subnormal; lossy may not turn it into a subnormal
                            false
                        }
                    },
                    _ => false,
                };
                if fast || ((cm == 0 || cm == k.inf_bits()) && !boundary_zone) {
                    if diff != 0 {
                        return Err(Fail::new(desc(api, &lossy_out, if fast { "(lossy) this input is decided by exact arithmetic and must be unchanged:" } else { "(lossy) zero/infinite results must be unchanged:" })));
                    }
                } else if diff > 1 {
                    return Err(Fail::new(desc(api, &lossy_out, &format!("(lossy) is {diff} ulps away from the correctly rounded"))));
                }
                if diff == 1 && (cm == 0 || cm == k.inf_bits()) {
                    l.class("lossy-neighbour-at-range-end(accepted)");
                }
                if diff == 1 {
                    l.class("lossy-differs-by-1ulp");
                } else {
                    l.class("lossy-equals-exact");
                }
            },
            (a, b) => {
                if a != b {
                    return Err(Fail::new(desc(api, &lossy_out, &format!("non-lossy gives {}; (lossy must accept/reject identically) correctly rounded", a.show()))));
                }
            },
        }
    }
    Ok(())
}

pub fn jobs(filter: impl Fn(&str, &FormatModel) -> bool) -> Vec<Job> {
    let c = cat();
    let mut v = Vec::new();
    for i in c.group("core") {
        let e = &c.entries[i];
        let m = &c.models[i];
        if !e.is_valid || !m.float_radix_pair_ok() {
            continue;
        }
        if !filter(e.name, m) {
            continue;
        }
        for ty in 0..2 {
            if e.pf[ty].is_some() {
                v.push(Job { entry: i, ty });
            }
        }
    }
    v
}

pub fn run_c05(ctx: &Ctx, rep: &mut Report) {
    rep.rule = "cases: per compiled format of the core group (every radix 2..36 except 10, the 5 mixed mantissa/base pairs with \
        exponent digits in radix 10 or the mantissa radix, exponent-digit-radix variants) and per float type: strings from exact \
        radix-r expansions of float midpoints / float values (finite for even r, 40-400 digit truncations for odd r), \
        truncated/perturbed/re-laid-out, grammar-random strings (up to 2000 digits, exponents beyond i64), fast-path region, range \
        edges; parsed with parse, parse_partial, parse_partial+junk and compared bit-exactly with the exact rational oracle for \
        mantissa x base^exponent. non-trivial = more digits than fit in 64 bits for that radix, or within 2^-56 (relative) of a \
        rounding boundary, or subnormal/zero/infinite result; distinct = distinct (format, type, text)."
        .into();
    rep.assumptions = vec!["exact big-rational rounding oracle (vcore), exponent character '^' (or 'p' for hex floats) so it is never a digit".into()];
    let js = jobs(|_, m| m.mantissa_radix() != 10 || m.exponent_radix() != 10);
    if js.is_empty() {
        rep.notes.push("no non-decimal formats in this configuration".into());
        return;
    }
    let per = ctx.n(10_000, 150_000);
    run_prop_jobs(
        rep,
        ctx,
        "radix:generated",
        &js,
        per,
        |j| {
            let m = &cat().models[j.entry];
            strategy(kind_of(j.ty), m.radices(), exp_char_for(m))
        },
        case_json,
        |j, c, l| check(j, c, l, false),
    );
    rep.extra.insert("formats".into(), json!(js.iter().map(|j| cat().entries[j.entry].name).collect::<std::collections::BTreeSet<_>>()));
    binade_sweep(rep, ctx, "radix:binade-sweep", &js, false);
}

/// every binade from 300 below the smallest subnormal to 300 above the largest finite value, per format and type
/// (outside the range the exact answer is a signed zero or infinity; a shift count, an exponent limit or a table
/// index that is wrong for one binade / one radix shows here)
pub fn binade_sweep(rep: &mut Report, ctx: &Ctx, sub: &str, js: &[Job], lossy: bool) {
    let per = ctx.n(4, 28);
    run_enum(rep, ctx, sub, js.len(), |ji, l, viol| {
        let j = &js[ji];
        let m = &cat().models[j.entry];
        let k = kind_of(j.ty);
        let rx = m.radices();
        let ec = exp_char_for(m);
        let lo = 1 - k.bias() - (k.p as i64 - 1) - 300;
        let hi = (k.max_exp_field() as i64 - 1) - k.bias() + 300;
        for e2 in lo..=hi {
            let mut h = mix(ctx.seed, &["binade", &ji.to_string(), &e2.to_string()]);
            for i in 0..per {
                h = splitmix(h);
                let mant = if i == 0 { 1u64 << 52 } else { (1u64 << 52) | (h >> 12) };
                let text = gen::binade_text(rx, mant, e2 - 52, b'.', ec, h & 2 != 0, crate::c01::SIG_BITS[(i as usize + (h >> 20) as usize) % crate::c01::SIG_BITS.len()]);
                let c = Case { text, class: "binade-sweep", junk: JUNK[(h >> 8) as usize % JUNK.len()] };
                if let Err(f) = check(j, &c, l, lossy) {
                    if filter_known(ctx, l, &f) {
                        viol.push((f.message, case_json(j, &c)));
                        return;
                    }
                }
            }
        }
    });
}

pub fn run_c19(ctx: &Ctx, rep: &mut Report) {
    rep.rule = "cases: the C01/C05 generators (70% midpoint-derived strings, fast-path region, grammar-random, range edges) for \
        STANDARD and every compiled radix / mixed-base format; each input parsed with lossy=false and lossy=true (complete, and \
        partial with a trailing junk byte): identical accept/reject, consumed count, error kind and index; accepted results \
        compared with the exact oracle: lossy result within one ulp (bit-pattern neighbour, +-inf and +-0 counted as neighbours of \
        MAX / min subnormal), identical when the correct result is zero or infinite or when the input is decided by exact native \
        arithmetic (mantissa <= 2^p fitting u64 digits and an exactly representable power). non-trivial = more digits than fit \
        a u64, or near a rounding boundary, or subnormal/zero/inf; distinct = distinct (format, type, text)."
        .into();
    rep.assumptions = vec!["'decided by the exact fast path' is computed by the harness as a subset of the documented fast-path condition".into()];
    let js = jobs(|_, _| true);
    let per = ctx.n(if js.len() > 10 { 10_000 } else { 240_000 }, 150_000);
    run_prop_jobs(
        rep,
        ctx,
        "lossy:generated",
        &js,
        per,
        |j| {
            let m = &cat().models[j.entry];
            strategy(kind_of(j.ty), m.radices(), exp_char_for(m))
        },
        case_json,
        |j, c, l| check(j, c, l, true),
    );
    binade_sweep(rep, ctx, "lossy:binade-sweep", &js, true);
}

fn replay_common(case: &Value, lossy: bool) -> CaseResult {
    let mut l = Local::new();
    let fmt = case["format"].as_str().unwrap_or("STANDARD");
    let entry = match cat().idx(fmt) {
        Some(i) => i,
        None => return Err(Fail::new(format!("format {fmt} not compiled in this configuration"))),
    };
    let ty = if case["type"].as_str() == Some("f32") { 0 } else { 1 };
    let c = Case { text: unhex(case["text_hex"].as_str().unwrap_or("")), class: "replay", junk: case["junk"].as_u64().unwrap_or(32) as u8 };
    check(&Job { entry, ty }, &c, &mut l, lossy)
}

pub fn replay_c05(_ctx: &Ctx, case: &Value) -> CaseResult {
    replay_common(case, false)
}
pub fn replay_c19(_ctx: &Ctx, case: &Value) -> CaseResult {
    replay_common(case, true)
}
