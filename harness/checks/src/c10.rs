//! C10 — parsers are total: no panic, no out-of-bounds read, indices within the input.
//! Inputs live in guard-page buffers of exactly their length (both placements); the work runs in
//! supervised worker processes so that a fault is attributed to the recorded case.

use crate::c05::kind_of;
use crate::c12::{alphabet, for_each_string, Ty};
use crate::cat::cat;
use crate::lex::*;
use crate::sup;
use catalogue::{FLOAT_NAMES, INT_NAMES};
use proptest::prelude::*;
use serde_json::{json, Value};
use std::cell::RefCell;
use std::sync::atomic::{AtomicU64, Ordering};
use std::sync::OnceLock;
use vcore::gen;
use vcore::guardbuf::{GuardBuf, Progress};
use vcore::refparse::OptModel;
use vcore::report::*;

static PROGRESS: OnceLock<Progress> = OnceLock::new();
static SKIP: AtomicU64 = AtomicU64::new(0);
static CASE_NO: AtomicU64 = AtomicU64::new(0);

thread_local! {
    static GBUF: RefCell<GuardBuf> = RefCell::new(GuardBuf::new(1 << 17));
}

pub fn init_worker(shm: Option<&str>, skip: u64) {
    let _ = PROGRESS.set(match shm {
        Some(p) => Progress::open(p, false),
        None => Progress::dummy(),
    });
    SKIP.store(skip, Ordering::SeqCst);
}

/// record the case, then run it unless it is one of the cases to skip after a crash
pub fn recorded<T>(fields: [u32; 6], payload: &[u8], f: impl FnOnce() -> T) -> Option<T> {
    let n = CASE_NO.fetch_add(1, Ordering::SeqCst) + 1;
    PROGRESS.get_or_init(Progress::dummy).record(fields, payload);
    if n <= SKIP.load(Ordering::SeqCst) {
        return None;
    }
    Some(f())
}

pub fn ty_code(ty: Ty) -> u32 {
    match ty {
        Ty::Float(i) => i as u32,
        Ty::Int(i) => 16 + i as u32,
    }
}
pub fn ty_from_code(c: u32) -> Ty {
    if c < 16 {
        Ty::Float(c as usize)
    } else {
        Ty::Int((c - 16) as usize)
    }
}

#[derive(Clone, Debug)]
pub struct Job {
    pub entry: usize,
    pub ty: Ty,
}

fn opts_for(m: &vcore::fmodel::FormatModel) -> OptModel {
    crate::c12::opt_model_for(m)
}

/// api: 0 = complete (options API), 1 = partial (options API)
fn call(entry: usize, ty: Ty, api: u32, lossy: bool, input: &[u8], o: &OptModel) -> POut {
    let e = &cat().entries[entry];
    match ty {
        Ty::Float(fi) => {
            let k = kind_of(fi);
            let opts = lexical_core::ParseFloatOptions::builder().exponent(o.exponent).decimal_point(o.decimal_point).lossy(lossy).build_unchecked();
            let (pf, pfp) = e.pf[fi].expect("float parser");
            if api == 0 {
                crate::c05::float_call(pf, input, &opts, k)
            } else {
                crate::c05::float_call_partial(pfp, input, &opts, k)
            }
        },
        Ty::Int(ii) => {
            let opts = lexical_core::ParseIntegerOptions::builder().no_multi_digit(lossy).build_unchecked();
            let (pi, pip) = e.pi[ii].expect("int parser");
            if api == 0 {
                match guard(|| pi(input, &opts)) {
                    Ok(Ok(v)) => POut::Ok(v, input.len()),
                    Ok(Err(e)) => err_out(&e),
                    Err(p) => POut::Panic(p),
                }
            } else {
                match guard(|| pip(input, &opts)) {
                    Ok(Ok((v, n))) => POut::Ok(v, n),
                    Ok(Err(e)) => err_out(&e),
                    Err(p) => POut::Panic(p),
                }
            }
        },
    }
}

pub fn case_json(entry: usize, ty: Ty, api: u32, at_end: bool, lossy: bool, text: &[u8]) -> Value {
    json!({"format": cat().entries[entry].name, "type": ty.name(), "api": if api == 0 { "complete" } else { "partial" },
           "placement": if at_end { "flush-with-trailing-guard" } else { "flush-with-leading-guard" }, "flag": lossy,
           "text": show(text), "text_hex": hex(text)})
}

/// Run one input through complete and partial parsers in both placements.
pub fn total_check(entry: usize, ty: Ty, text: &[u8], flag: bool, l: &mut Local) -> CaseResult {
    let m = &cat().models[entry];
    let e = &cat().entries[entry];
    let o = opts_for(m);
    let has_digit = text.iter().any(|&c| vcore::numtext::digit_val(c, m.mantissa_radix()).is_some());
    let structural = text.iter().any(|&c| c == b'+' || c == b'-' || c == o.decimal_point || c.eq_ignore_ascii_case(&o.exponent) || (m.digit_separator != 0 && c == m.digit_separator) || (m.base_prefix != 0 && c.eq_ignore_ascii_case(&m.base_prefix)) || (m.base_suffix != 0 && c.eq_ignore_ascii_case(&m.base_suffix)));
    if has_digit && structural {
        l.nontrivial_bytes(((entry as u64) << 8) | ty_code(ty) as u64, text);
        if l.want_sample() && text.len() >= 3 {
            l.sample(case_json(entry, ty, 0, true, flag, text));
        }
    }
    for at_end in [true, false] {
        for api in 0..2u32 {
            let fields = [entry as u32, ty_code(ty), api, at_end as u32, flag as u32, 0];
            let out = recorded(fields, text, || {
                GBUF.with(|g| {
                    let mut g = g.borrow_mut();
                    let input = g.place(text, at_end);
                    // SAFETY of the harness: the slice is exactly text.len() bytes inside RW pages
                    let input: &[u8] = unsafe { std::slice::from_raw_parts(input.as_ptr(), input.len()) };
                    call(entry, ty, api, flag, input, &o)
                })
            });
            let out = match out {
                Some(o) => o,
                None => continue,
            };
            l.eval(1);
            let bad = match &out {
                POut::Panic(p) => Some(format!("panicked: {p}")),
                POut::Ok(_, n) if *n > text.len() => Some(format!("consumed count {n} exceeds the input length {}", text.len())),
                POut::Err(k, Some(i)) if *i > text.len() => Some(format!("error {k} carries index {i} beyond the input length {}", text.len())),
                _ => None,
            };
            match &out {
                POut::Ok(_, n) if api == 1 && *n > 0 && *n < text.len() => l.class("outcome:partial-prefix"),
                POut::Ok(..) => l.class("outcome:ok"),
                POut::Err(k, _) => l.class(&format!("outcome:{k}")),
                POut::Panic(_) => l.class("outcome:panic"),
            }
            if let Some(b) = bad {
                return Err(Fail::new(format!(
                    "{} {} [{}] {}({:?}) {} [{}; profile {}]",
                    ty.name(),
                    e.name,
                    m.describe(),
                    if api == 0 { "parse" } else { "parse_partial" },
                    show(text),
                    b,
                    if at_end { "input flush with the trailing guard page" } else { "input flush with the leading guard page" },
                    profile_name()
                )));
            }
        }
    }
    Ok(())
}

pub fn jobs() -> Vec<Job> {
    let c = cat();
    let mut v = Vec::new();
    let mut seen = std::collections::HashSet::new();
    for g in ["core", "syntax", "prebuilt", "write", "sep", "prefix_noreq", "sep_case"] {
        for i in c.group(g) {
            let e = &c.entries[i];
            let m = &c.models[i];
            if !e.is_valid {
                continue;
            }
            for fi in 0..2 {
                if e.pf[fi].is_some() && m.float_radix_pair_ok() && seen.insert((e.packed, 100 + fi)) {
                    v.push(Job { entry: i, ty: Ty::Float(fi) });
                }
            }
            for ii in 0..12 {
                if e.pi[ii].is_some() && seen.insert((e.packed, ii)) {
                    v.push(Job { entry: i, ty: Ty::Int(ii) });
                }
            }
        }
    }
    v
}

/// arbitrary bytes and structure-preserving mutations of valid numbers
fn bytes_strategy(m: &vcore::fmodel::FormatModel, ty: Ty, o: &OptModel) -> BoxedStrategy<Vec<u8>> {
    let rx = m.radices();
    let (pt, ec) = (o.decimal_point, o.exponent);
    let sep = if m.digit_separator != 0 { m.digit_separator } else { b'_' };
    let valid: BoxedStrategy<Vec<u8>> = match ty {
        Ty::Float(fi) => {
            let k = kind_of(fi);
            prop_oneof![
                3 => gen::midpoint_text(k, rx, pt, ec).prop_map(|(t, _)| t),
                3 => gen::grammar_text(rx, pt, ec).prop_map(|(t, _)| t),
                2 => gen::fastpath_text(k, rx, pt, ec).prop_map(|(t, _)| t),
                1 => gen::range_edge_text(k, rx, pt, ec).prop_map(|(t, _)| t),
                1 => gen::beyond_range_text(k, rx, pt, ec).prop_map(|(t, _)| t),
                1 => gen::limb_aligned_text(k, rx, pt, ec).prop_map(|(t, _)| t),
            ]
            .boxed()
        },
        Ty::Int(ii) => {
            let bits = catalogue::INT_BITS[ii];
            let signed = catalogue::INT_SIGNED[ii];
            let radix = rx.mant;
            (gen::int_value(bits, signed, radix), 0usize..70).prop_map(move |(v, lz)| {
                let mut n = gen::ref_numeral(v, bits, signed, radix, false);
                let pos = if n[0] == b'-' { 1 } else { 0 };
                for _ in 0..lz {
                    n.insert(pos, b'0');
                }
                n
            })
            .boxed()
        },
    };
    let mutated = (valid.clone(), proptest::collection::vec((any::<u16>(), any::<u8>(), 0u8..6), 0..4), valid.clone())
        .prop_map(move |(mut t, muts, other)| {
            for (pos, b, kind) in muts {
                let p = gen::pick(pos, t.len() + 1);
                match kind {
                    0 => t.insert(p, b),                          // insert byte
                    1 if p < t.len() => {
                        t.remove(p);
                    },                                            // delete
                    2 if p < t.len() => {
                        let c = t[p];
                        t.insert(p, c);
                    },                                            // duplicate
                    3 if p < t.len() => t[p] = b,                 // replace
                    4 => t.truncate(p),                           // truncate
                    5 => {
                        // splice another number in, or a separator / structural byte
                        let ins: &[u8] = match b % 6 {
                            0 => &other[..other.len().min(40)],
                            1 => std::slice::from_ref(&sep),
                            2 => std::slice::from_ref(&ec),
                            3 => std::slice::from_ref(&pt),
                            4 => b"+",
                            _ => b"-",
                        };
                        let ins = ins.to_vec();
                        for (k, c) in ins.iter().enumerate() {
                            t.insert((p + k).min(t.len()), *c);
                        }
                    },
                    _ => {},
                }
            }
            t
        })
        .boxed();
    prop_oneof![
        // unmutated valid numbers reach the deep numeric paths (moderate / big-integer slow paths of every radix)
        4 => valid.clone(),
        6 => mutated,
        3 => proptest::collection::vec(any::<u8>(), 0..24),
        1 => proptest::collection::vec(any::<u8>(), 24..300),
        1 => (valid, 0usize..5000).prop_map(|(mut t, pad)| {
            // long inputs: digits repeated to a few KiB
            let d = *t.iter().find(|c| c.is_ascii_digit()).unwrap_or(&b'1');
            for _ in 0..pad {
                t.push(d);
            }
            t
        }),
    ]
    .boxed()
}

/// worker body: jobs with index = chunk (mod nchunks)
pub fn run_worker(ctx: &Ctx, rep: &mut Report, chunk: usize, nchunks: usize) {
    let js = jobs();
    let mut ctx1 = ctx.clone();
    ctx1.threads = 1;
    let max_len = if ctx.thorough() { 4 } else { 3 };
    let per = ctx.n((1_500_000 / js.len().max(1) as u64).max(250), (30_000_000 / js.len().max(1) as u64).max(5_000));
    for (ji, j) in js.iter().enumerate() {
        if ji % nchunks != chunk {
            continue;
        }
        let m = &cat().models[j.entry];
        let o = opts_for(m);
        let alpha = alphabet(m, &o, true);
        let mut l = Local::new();
        l.sample_cap = if ji < 4 * nchunks { 1 } else { 0 };
        let mut viol: Vec<(String, Value)> = Vec::new();
        for_each_string(&alpha, max_len, |s| {
            if let Err(f) = total_check(j.entry, j.ty, s, false, &mut l) {
                if filter_known(ctx, &mut l, &f) {
                    viol.push((f.message, case_json(j.entry, j.ty, 0, true, false, s)));
                    return viol.len() < 2;
                }
            }
            true
        });
        for (msg, case) in viol {
            if rep.violations.len() < 30 {
                rep.violation("enumerated:short-strings", msg, case);
            }
        }
        rep.add("enumerated:short-strings", l);
        let jobs1 = [j.clone()];
        // every job has its own generator stream
        let mut ctx1 = ctx1.clone();
        ctx1.seed = mix(ctx.seed, &["c10-job", &ji.to_string()]);
        // float parsers of the core group (every radix and mixed base: per-radix tables, Bellerophon, big-integer
        // slow paths whose assertions / unwraps only trip for one radix and a band of exponents) get many more cases
        let deep = matches!(j.ty, Ty::Float(_)) && cat().entries[j.entry].group == "core";
        let per = if deep { per.max(ctx.n(20_000, 150_000)) } else { per };
        run_prop_jobs(
            rep,
            &ctx1,
            "generated:bytes-and-mutations",
            &jobs1,
            per,
            |j| {
                let m = &cat().models[j.entry];
                (bytes_strategy(m, j.ty, &opts_for(m)), any::<bool>())
            },
            |j, (t, flag)| case_json(j.entry, j.ty, 0, true, *flag, t),
            |j, (t, flag), l| total_check(j.entry, j.ty, t, *flag, l),
        );
        // binade sweep for the deep jobs: a number in every binade from 300 below the smallest subnormal to 300
        // above the largest finite value (an overflowing shift or an out-of-range table index for one binade)
        if let (true, Ty::Float(fi)) = (deep, j.ty) {
            let k = kind_of(fi);
            let rx = m.radices();
            let mut l = Local::new();
            l.sample_cap = 0;
            let lo = 1 - k.bias() - (k.p as i64 - 1) - 300;
            let hi = (k.max_exp_field() as i64 - 1) - k.bias() + 300;
            let mut viol: Vec<(String, Value)> = Vec::new();
            'sweep: for e2 in lo..=hi {
                let h = splitmix(mix(ctx.seed, &["c10-binade", &ji.to_string(), &e2.to_string()]));
                for (i, mant) in [1u64 << 52, (1u64 << 52) | (h >> 12), (1u64 << 52) | (h >> 13), (1u64 << 52) | (h >> 14) | 1].into_iter().enumerate() {
                    let text = gen::binade_text(rx, mant, e2 - 52, o.decimal_point, o.exponent, h & 2 != 0, crate::c01::SIG_BITS[(i + (h >> 20) as usize) % crate::c01::SIG_BITS.len()]);
                    let flag = (h >> 3) & 1 == 1 && i == 1;
                    if let Err(f) = total_check(j.entry, j.ty, &text, flag, &mut l) {
                        if filter_known(ctx, &mut l, &f) {
                            viol.push((f.message, case_json(j.entry, j.ty, 0, true, flag, &text)));
                            break 'sweep;
                        }
                    }
                }
            }
            for (msg, case) in viol {
                if rep.violations.len() < 30 {
                    rep.violation("enumerated:binade-sweep", msg, case);
                }
            }
            rep.add("enumerated:binade-sweep", l);
        }
    }
}

pub fn describe(fields: &[u32; 6], payload: &[u8]) -> (String, Value) {
    let entry = fields[0] as usize;
    let ty = ty_from_code(fields[1]);
    let name = cat().entries.get(entry).map(|e| e.name).unwrap_or("?");
    (
        format!("{} {} {}({:?}) [{}]", ty.name(), name, if fields[2] == 0 { "parse" } else { "parse_partial" }, show(payload), if fields[3] == 1 { "flush with trailing guard" } else { "flush with leading guard" }),
        case_json(entry.min(cat().entries.len() - 1), ty, fields[2], fields[3] == 1, fields[4] == 1, payload),
    )
}

pub fn run(ctx: &Ctx, rep: &mut Report) {
    rep.rule = "cases: for every valid compiled format (core incl. all radices, syntax, prebuilt, write, separator groups) x every \
        compiled type (all 14 for core formats) x {parse, parse_partial}: (i) all strings of length <= L (quick 3, thorough 4) over \
        the per-format alphabet; (ii) generated inputs: valid numbers (midpoint-derived, grammar-random, integer edges with up to \
        70 leading zeros) under up to 3 mutations (insert/delete/duplicate/replace a byte, truncate, splice another number or a \
        structural byte), arbitrary bytes up to 300, and inputs padded to several KiB; floats also with lossy=true, integers with \
        no_multi_digit=true. Each input is copied into a guard-page buffer of exactly its length, once flush with the trailing \
        PROT_NONE page and once flush with the leading one, inside a supervised worker process. Oracle/monitor: the call returns \
        (no panic via catch_unwind, no fault = worker survives, 20 s watchdog), partial count <= len, every error index <= len. \
        non-trivial = the input has a digit of the radix and a structural byte; distinct = distinct (format, type, text)."
        .into();
    rep.assumptions = vec![
        "an out-of-slice read that stays inside the mapped data pages (more than the input length away from a guard) is not visible to guard pages".into(),
        "worker crashes are attributed to the last case recorded in the shared progress mapping".into(),
    ];
    let nchunks = ctx.threads.max(1) * 2;
    let ok = sup::supervise(ctx, rep, "c10", nchunks, describe);
    if !ok {
        rep.notes.push("infrastructure problem in at least one worker".into());
    }
}

pub fn replay(_ctx: &Ctx, case: &Value) -> CaseResult {
    init_worker(None, 0);
    let mut l = Local::new();
    let fmt = case["format"].as_str().unwrap_or("STANDARD");
    let entry = match cat().idx(fmt) {
        Some(i) => i,
        None => return Err(Fail::new(format!("format {fmt} not compiled in this configuration"))),
    };
    let ty = Ty::from_name(case["type"].as_str().unwrap_or("f64"));
    let _ = (FLOAT_NAMES, INT_NAMES);
    total_check(entry, ty, &unhex(case["text_hex"].as_str().unwrap_or("")), case["flag"].as_bool().unwrap_or(false), &mut l)
}
