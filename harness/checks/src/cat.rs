//! Access to the compiled format catalogue.

use catalogue::Entry;
use std::sync::OnceLock;
use vcore::fmodel::{Features, FormatModel};

pub struct Cat {
    pub entries: Vec<Entry>,
    pub models: Vec<FormatModel>,
}

pub fn features() -> Features {
    Features { power_of_two: cfg!(feature = "power-of-two"), radix: cfg!(feature = "radix"), format: cfg!(feature = "format") }
}

static CAT: OnceLock<Cat> = OnceLock::new();

pub fn cat() -> &'static Cat {
    CAT.get_or_init(|| {
        let entries = catalogue::entries();
        let models = entries.iter().map(|e| FormatModel::decode(e.packed)).collect();
        Cat { entries, models }
    })
}

impl Cat {
    pub fn idx(&self, name: &str) -> Option<usize> {
        self.entries.iter().position(|e| e.name == name)
    }
    pub fn get(&self, name: &str) -> Option<(&Entry, &FormatModel)> {
        self.idx(name).map(|i| (&self.entries[i], &self.models[i]))
    }
    pub fn group(&self, g: &str) -> Vec<usize> {
        (0..self.entries.len()).filter(|&i| self.entries[i].group == g).collect()
    }
    /// plain radix formats available in this build: (radix, entry index)
    pub fn radix_entries(&self) -> Vec<(u32, usize)> {
        let mut v = Vec::new();
        for r in 2..=36u32 {
            let name = if r == 10 { "STANDARD".to_string() } else { format!("R{r}") };
            if let Some(i) = self.idx(&name) {
                v.push((r, i));
            }
        }
        v
    }
    /// Compiled entries (outside the `invalid` group) that the library reports invalid although the documented
    /// rules make them valid in this feature set: every parse / write with such a format only returns a
    /// configuration error, and the checks would silently skip it. (name, description)
    pub fn unexpectedly_invalid(&self, groups: &[&str]) -> Vec<(String, String)> {
        let feat = features();
        let mut v = Vec::new();
        for (i, e) in self.entries.iter().enumerate() {
            if e.group == "invalid" || !groups.contains(&e.group) || e.is_valid {
                continue;
            }
            if self.models[i].validity(feat).is_none() {
                v.push((e.name.to_string(), self.models[i].describe()));
            }
        }
        v
    }
    /// indices of entries whose packed value is distinct (first occurrence wins), filtered
    pub fn distinct(&self, idxs: &[usize]) -> Vec<usize> {
        let mut seen = std::collections::HashSet::new();
        idxs.iter().copied().filter(|&i| seen.insert(self.entries[i].packed)).collect()
    }
}
