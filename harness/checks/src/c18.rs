//! C18 — format and options validation is sound and complete.

use crate::cat::{cat, features};
use crate::lex::*;
use lexical_core::{Error, NumberFormatBuilder};
use proptest::prelude::*;
use serde_json::{json, Value};
use vcore::fmodel::{FormatModel, FLAG_MASK};
use vcore::gen;
use vcore::report::*;

/// configuration-error variants and their panic messages
fn config_errors() -> Vec<(&'static str, Error)> {
    vec![
        ("InvalidMantissaRadix", Error::InvalidMantissaRadix),
        ("InvalidExponentBase", Error::InvalidExponentBase),
        ("InvalidExponentRadix", Error::InvalidExponentRadix),
        ("InvalidDigitSeparator", Error::InvalidDigitSeparator),
        ("InvalidDecimalPoint", Error::InvalidDecimalPoint),
        ("InvalidExponentSymbol", Error::InvalidExponentSymbol),
        ("InvalidBasePrefix", Error::InvalidBasePrefix),
        ("InvalidBaseSuffix", Error::InvalidBaseSuffix),
        ("InvalidPunctuation", Error::InvalidPunctuation),
        ("InvalidExponentFlags", Error::InvalidExponentFlags),
        ("InvalidMantissaSign", Error::InvalidMantissaSign),
        ("InvalidExponentSign", Error::InvalidExponentSign),
        ("InvalidSpecial", Error::InvalidSpecial),
        ("InvalidConsecutiveIntegerDigitSeparator", Error::InvalidConsecutiveIntegerDigitSeparator),
        ("InvalidConsecutiveFractionDigitSeparator", Error::InvalidConsecutiveFractionDigitSeparator),
        ("InvalidConsecutiveExponentDigitSeparator", Error::InvalidConsecutiveExponentDigitSeparator),
        ("InvalidFlags", Error::InvalidFlags),
        ("InvalidRadix", Error::InvalidRadix),
    ]
}

fn error_name_from_message(msg: &str) -> Option<&'static str> {
    for (name, e) in config_errors() {
        if msg.contains(e.description()) {
            return Some(name);
        }
    }
    None
}

pub fn is_config_error(kind: &str) -> bool {
    config_errors().iter().any(|(n, _)| *n == kind)
}

/// (a) one packed candidate through the run-time builder
pub fn check_packed(packed: u128, l: &mut Local) -> CaseResult {
    let feat = features();
    l.eval(1);
    let b = NumberFormatBuilder::rebuild(packed);
    let rebuilt = b.build_unchecked();
    let m = FormatModel::decode(rebuilt);
    let viol = m.violations(feat);
    let observed = guard(|| b.build_strict());
    let desc = || format!("packed {packed:#034x} (rebuilt {rebuilt:#034x}: {})", m.describe());
    // non-trivial: invalid for exactly one reason, or valid with >= 3 non-default fields
    let mut distinct: Vec<&str> = viol.clone();
    distinct.dedup();
    let non_default_fields = (m.flag_word() ^ 0xc).count_ones() + (m.digit_separator != 0) as u32 + (m.base_prefix != 0) as u32 + (m.base_suffix != 0) as u32 + (m.mantissa_radix() != 10) as u32;
    if distinct.len() == 1 || (distinct.is_empty() && non_default_fields >= 3) {
        l.nontrivial_hash(splitmix(packed as u64 ^ ((packed >> 64) as u64).rotate_left(29)));
        if l.want_sample() {
            l.sample(json!({"packed": format!("{packed:#034x}"), "model": m.describe(), "documented_violations": viol}));
        }
    }
    match (&observed, distinct.first()) {
        (Ok(p), None) => {
            l.class("valid");
            if *p != rebuilt {
                return Err(Fail::new(format!("{}: build_strict returned {p:#034x}, build_unchecked {rebuilt:#034x}", desc())));
            }
        },
        (Err(msg), Some(_)) => {
            let got = error_name_from_message(msg);
            l.class(&format!("invalid:{}", distinct[0]));
            match got {
                None => return Err(Fail::new(format!("{}: build_strict panicked with an unrecognised message: {msg}", desc()))),
                Some(g) => {
                    // which error: must be one of the violated rules; exactly that rule when only one is violated
                    if !distinct.contains(&g) {
                        return Err(Fail::new(format!("{}: build_strict reports {g}, documented rules violated: {:?}", desc(), distinct)));
                    }
                },
            }
        },
        (Ok(_), Some(rule)) => {
            return Err(Fail::new(format!("{}: accepted by build_strict although it violates the documented rule {rule} ({:?})", desc(), distinct)));
        },
        (Err(msg), None) => {
            return Err(Fail::new(format!("{}: build_strict panics ({msg}) although every documented constraint holds", desc())));
        },
    }
    // rebuild round trip: rebuild(build(rebuild(p))) == rebuild(p) field by field
    let b2 = NumberFormatBuilder::rebuild(rebuilt);
    if b2.build_unchecked() != rebuilt {
        return Err(Fail::new(format!("{}: build -> rebuild -> build is not the identity", desc())));
    }
    // normalisation documented for rebuild: unset exponent base/radix == mantissa radix; separator
    // byte dropped when no separator flag is set; everything else is preserved bit for bit
    let m0 = FormatModel::decode(packed);
    let same_flags = (packed & FLAG_MASK) == (rebuilt & FLAG_MASK);
    let same_radix = m0.mantissa_radix() == m.mantissa_radix() && m0.exponent_base() == m.exponent_base() && m0.exponent_radix() == m.exponent_radix();
    let same_punct = m0.base_prefix == m.base_prefix && m0.base_suffix == m.base_suffix && (m.digit_separator == m0.digit_separator || (!m0.has_separators() && m.digit_separator == 0));
    if !(same_flags && same_radix && same_punct) {
        return Err(Fail::new(format!("{}: rebuild does not preserve the fields of {packed:#034x}", desc())));
    }
    Ok(())
}

fn encode(flags: u128, sep: u8, prefix: u8, suffix: u8, radix: u8, base: u8, eradix: u8) -> u128 {
    (flags & FLAG_MASK) | ((sep as u128) << 64) | ((prefix as u128) << 88) | ((suffix as u128) << 96) | ((radix as u128) << 104) | ((base as u128) << 112) | ((eradix as u128) << 120)
}

fn packed_strategy() -> BoxedStrategy<u128> {
    let byte = || prop_oneof![4 => Just(0u8), 3 => prop_oneof![Just(b'_'), Just(b','), Just(b'\''), Just(b'x'), Just(b'h'), Just(b'd'), Just(b'e')], 1 => any::<u8>()];
    let radix = || prop_oneof![4 => Just(10u8), 3 => prop_oneof![Just(2u8), Just(16u8), Just(3u8), Just(36u8), Just(8u8)], 1 => 0u8..40, 1 => any::<u8>()];
    let oradix = || prop_oneof![5 => Just(0u8), 2 => prop_oneof![Just(2u8), Just(10u8), Just(16u8), Just(4u8)], 1 => 0u8..40];
    // flag words: sparse (few bits) and dense
    let flags = prop_oneof![
        3 => proptest::collection::vec(0u32..45, 0..5).prop_map(|bits| bits.iter().fold(0xcu128, |a, b| a ^ (1u128 << if *b < 18 { *b } else { *b - 18 + 32 }))),
        1 => any::<u64>().prop_map(|x| (x as u128 & 0x3ffff) | (((x >> 20) as u128 & 0x1fff) << 32)),
    ];
    (flags, byte(), byte(), byte(), radix(), oradix(), oradix()).prop_map(|(f, s, p, x, r, b, e)| encode(f, s, p, x, r, b, e)).boxed()
}

// ------------------------------------------------------------------------------------------------

/// (c) parsing with an invalid format, (b) compile-time agreement — per catalogue entry
fn check_entry(i: usize, l: &mut Local, inputs: &[Vec<u8>]) -> CaseResult {
    let c = cat();
    let e = &c.entries[i];
    let m = &c.models[i];
    let feat = features();
    let viol = m.violations(feat);
    l.eval(1);
    // (b) compile-time verdict == documented rules == run-time builder
    let model_valid = viol.is_empty();
    if e.is_valid != model_valid {
        return Err(Fail::new(format!("format_is_valid::<{}>() = {} but the documented rules say {:?} [{}]", e.name, e.is_valid, viol, m.describe())));
    }
    let ek = err_kind(&e.error);
    if model_valid {
        if ek != "Success" {
            return Err(Fail::new(format!("format_error::<{}>() = {ek} for a valid format", e.name)));
        }
    } else if !viol.contains(&ek.as_str()) {
        return Err(Fail::new(format!("format_error::<{}>() = {ek}, documented rules violated: {:?}", e.name, viol)));
    }
    let rt = guard(|| NumberFormatBuilder::rebuild(e.packed).build_strict());
    if rt.is_ok() != e.is_valid {
        return Err(Fail::new(format!("{}: compile-time validity {} but run-time build_strict {}", e.name, e.is_valid, if rt.is_ok() { "succeeds" } else { "panics" })));
    }
    l.class(if e.is_valid { "entry:valid" } else { "entry:invalid" });
    if e.is_valid {
        return Ok(());
    }
    // (c) invalid format: every parser returns a configuration error, never a value, never a panic
    let fopts = lexical_core::ParseFloatOptions::new();
    let iopts = lexical_core::ParseIntegerOptions::new();
    for inp in inputs {
        l.eval(1);
        l.nontrivial_bytes(i as u64, inp);
        for fi in 0..2 {
            if let Some((pf, pfp)) = e.pf[fi] {
                let k = crate::c05::kind_of(fi);
                let c1 = crate::c05::float_call(pf, inp, &fopts, k);
                let want = err_out(&e.error);
                if c1 != want {
                    return Err(Fail::new(format!("invalid format {} [{}]: complete float parse({:?}) = {}, expected {}", e.name, m.describe(), show(inp), c1.show(), want.show())));
                }
                let p1 = crate::c05::float_call_partial(pfp, inp, &fopts, k);
                match &p1 {
                    POut::Err(kind, None) if is_config_error(kind) => {},
                    other => return Err(Fail::new(format!("invalid format {} [{}]: partial float parse({:?}) = {}, expected a configuration error", e.name, m.describe(), show(inp), other.show()))),
                }
            }
        }
        for ii in 0..12 {
            if let Some((pi, pip)) = e.pi[ii] {
                let want = err_out(&e.error);
                let c1 = match guard(|| pi(inp, &iopts)) {
                    Ok(Ok(v)) => POut::Ok(v, inp.len()),
                    Ok(Err(x)) => err_out(&x),
                    Err(p) => POut::Panic(p),
                };
                let p1 = match guard(|| pip(inp, &iopts)) {
                    Ok(Ok((v, n))) => POut::Ok(v, n),
                    Ok(Err(x)) => err_out(&x),
                    Err(p) => POut::Panic(p),
                };
                if c1 != want || p1 != want {
                    return Err(Fail::new(format!("invalid format {} [{}]: integer parse({:?}) = {} / partial {}, expected {}", e.name, m.describe(), show(inp), c1.show(), p1.show(), want.show())));
                }
            }
        }
    }
    Ok(())
}

/// (d) invalid punctuation options on a valid format
#[derive(Clone, Debug)]
struct PunctCase {
    entry: usize,
    point: u8,
    exp: u8,
    input: Vec<u8>,
}

fn punct_json(c: &PunctCase) -> Value {
    json!({"format": cat().entries[c.entry].name, "decimal_point": c.point, "exponent": c.exp, "text": show(&c.input), "text_hex": hex(&c.input)})
}

/// documented rule for options punctuation
fn punct_valid(m: &FormatModel, point: u8, exp: u8) -> bool {
    let maxr = m.mantissa_radix().max(m.exponent_radix());
    let ok = |c: u8| c != 0 && vcore::fmodel::is_valid_ascii(c) && vcore::numtext::digit_val(c, maxr).is_none() && c != b'+' && c != b'-';
    if !ok(point) || !ok(exp) || point == exp {
        return false;
    }
    if features().format {
        for p in [m.digit_separator, m.base_prefix, m.base_suffix] {
            if p != 0 && (p == point || p == exp) {
                return false;
            }
        }
        // the exponent character is matched without regard to case unless the format is case-sensitive: a digit
        // separator that is the same letter in the other case is the same character to the parser, not a distinct one
        if m.digit_separator != 0 && !m.case_sensitive_exponent && m.digit_separator.eq_ignore_ascii_case(&exp) {
            return false;
        }
    }
    true
}

fn check_punct(c: &PunctCase, l: &mut Local) -> CaseResult {
    let e = &cat().entries[c.entry];
    let m = &cat().models[c.entry];
    let valid = punct_valid(m, c.point, c.exp);
    l.eval(1);
    l.class(if valid { "punctuation:valid" } else { "punctuation:invalid" });
    if valid {
        return Ok(());
    }
    l.nontrivial_hash(splitmix(((c.entry as u64) << 16) | ((c.point as u64) << 8) | c.exp as u64) ^ hash_bytes(&c.input));
    if l.want_sample() {
        l.sample(punct_json(c));
    }
    let opts = lexical_core::ParseFloatOptions::builder().decimal_point(c.point).exponent(c.exp).build_unchecked();
    for fi in 0..2 {
        if let Some((pf, pfp)) = e.pf[fi] {
            let k = crate::c05::kind_of(fi);
            let c1 = crate::c05::float_call(pf, &c.input, &opts, k);
            let p1 = crate::c05::float_call_partial(pfp, &c.input, &opts, k);
            for (api, out) in [("parse", &c1), ("parse_partial", &p1)] {
                if *out != POut::Err("InvalidPunctuation".into(), None) {
                    return Err(Fail::new(format!(
                        "{} [{}] with decimal_point {:?} / exponent {:?} (invalid punctuation): {api}({:?}) = {}, expected Err(InvalidPunctuation)",
                        e.name,
                        m.describe(),
                        c.point as char,
                        c.exp as char,
                        show(&c.input),
                        out.show()
                    )));
                }
            }
        }
    }
    Ok(())
}

// ------------------------------------------------------------------------------------------------
// (e) builders: getters reflect setters; rebuild round trips

#[derive(Clone, Debug)]
enum OptOp {
    Lossy(bool),
    Exp(u8),
    Point(u8),
    Nan(u8),
    Inf(u8),
    Infinity(u8),
    MaxDigits(u16),
    MinDigits(u16),
    PosBreak(i32),
    NegBreak(i32),
    Trim(bool),
    Round(bool),
    NoMulti(bool),
}

/// option strings: valid ones and ones that break exactly one documented rule (letters only,
/// first letter n/i, 1..=50 bytes), including bytes that differ from a letter in one bit
pub fn strs() -> &'static [Option<&'static [u8]>] {
    static P: std::sync::OnceLock<Vec<Option<&'static [u8]>>> = std::sync::OnceLock::new();
    P.get_or_init(|| {
        let mut v: Vec<Option<&'static [u8]>> = vec![None, None];
        let fixed: [&'static [u8]; 44] = [
            // valid
            b"NaN", b"nan", b"N", b"n", b"nAn", b"NaNQ", b"Nil", b"inf", b"Inf", b"I", b"i", b"Infinity", b"infinity", b"INFINITY", b"iZ", b"nz",
            // invalid
            b"", b"xan", b"Xnf", b"an", b"1nf", b"0", b"na1", b"in0", b"in_f", b"na n", b"n@n", b"i[f", b"n`n", b"i{f", b"nA\xe1", b"i\xc9f", b"n\xff", b"\xeean", b"\xc9nf", b"\x0ean", b"\x09nf", b"n\0n",
            b"i\0", b"n.", b"i-", b"+inf", b"-nan", b"n\x80",
        ];
        v.extend(fixed.iter().map(|s| Some(*s)));
        for (first, len) in [(b'n', 50usize), (b'n', 51), (b'i', 50), (b'i', 51), (b'N', 49), (b'I', 64)] {
            let mut s = vec![first];
            s.extend((1..len).map(|i| b"abcdefghijklmnopqrstuvwxyzABCDEFGHIJKLMNOPQRSTUVWXYZ"[i % 52]));
            v.push(Some(Box::leak(s.into_boxed_slice())));
        }
        v
    })
}

fn opt_ops() -> BoxedStrategy<Vec<OptOp>> {
    let op = prop_oneof![
        any::<bool>().prop_map(OptOp::Lossy),
        any::<u8>().prop_map(OptOp::Exp),
        any::<u8>().prop_map(OptOp::Point),
        any::<u8>().prop_map(OptOp::Nan),
        any::<u8>().prop_map(OptOp::Inf),
        any::<u8>().prop_map(OptOp::Infinity),
        // mostly small, so that min == max and min == max + 1 occur
        prop_oneof![3 => 0u16..=6, 1 => any::<u16>()].prop_map(OptOp::MaxDigits),
        prop_oneof![3 => 0u16..=6, 1 => any::<u16>()].prop_map(OptOp::MinDigits),
        any::<i32>().prop_map(OptOp::PosBreak),
        any::<i32>().prop_map(OptOp::NegBreak),
        any::<bool>().prop_map(OptOp::Trim),
        any::<bool>().prop_map(OptOp::Round),
        any::<bool>().prop_map(OptOp::NoMulti),
    ];
    proptest::collection::vec(op, 0..12).boxed()
}

fn check_opt_ops(ops: &Vec<OptOp>, l: &mut Local) -> CaseResult {
    use lexical_core::write_float_options::RoundMode;
    use std::num::{NonZeroI32, NonZeroUsize};
    l.eval(1);
    if ops.len() >= 3 {
        l.nontrivial_hash(hash_bytes(format!("{ops:?}").as_bytes()));
    }
    let mut pf = lexical_core::ParseFloatOptions::builder();
    let mut wf = lexical_core::WriteFloatOptions::builder();
    let mut pi = lexical_core::ParseIntegerOptions::builder();
    // model: last value set
    let (mut lossy, mut pexp, mut ppoint, mut pnan, mut pinf, mut pinfinity) = (false, b'e', b'.', Some(&b"NaN"[..]), Some(&b"inf"[..]), Some(&b"infinity"[..]));
    let (mut wexp, mut wpoint, mut wnan, mut winf) = (b'e', b'.', Some(&b"NaN"[..]), Some(&b"inf"[..]));
    let (mut maxd, mut mind, mut posb, mut negb, mut trim, mut round_trunc, mut nomulti) = (None, None, None, None, false, false, true);
    for op in ops {
        match op {
            OptOp::Lossy(b) => {
                pf = pf.lossy(*b);
                lossy = *b;
            },
            OptOp::Exp(c) => {
                pf = pf.exponent(*c);
                wf = wf.exponent(*c);
                pexp = *c;
                wexp = *c;
            },
            OptOp::Point(c) => {
                pf = pf.decimal_point(*c);
                wf = wf.decimal_point(*c);
                ppoint = *c;
                wpoint = *c;
            },
            OptOp::Nan(i) => {
                pf = pf.nan_string(strs()[*i as usize % strs().len()]);
                wf = wf.nan_string(strs()[*i as usize % strs().len()]);
                pnan = strs()[*i as usize % strs().len()];
                wnan = pnan;
            },
            OptOp::Inf(i) => {
                pf = pf.inf_string(strs()[*i as usize % strs().len()]);
                wf = wf.inf_string(strs()[*i as usize % strs().len()]);
                pinf = strs()[*i as usize % strs().len()];
                winf = pinf;
            },
            OptOp::Infinity(i) => {
                pf = pf.infinity_string(strs()[*i as usize % strs().len()]);
                pinfinity = strs()[*i as usize % strs().len()];
            },
            OptOp::MaxDigits(n) => {
                wf = wf.max_significant_digits(NonZeroUsize::new(*n as usize));
                maxd = NonZeroUsize::new(*n as usize);
            },
            OptOp::MinDigits(n) => {
                wf = wf.min_significant_digits(NonZeroUsize::new(*n as usize));
                mind = NonZeroUsize::new(*n as usize);
            },
            OptOp::PosBreak(n) => {
                wf = wf.positive_exponent_break(NonZeroI32::new(*n));
                posb = NonZeroI32::new(*n);
            },
            OptOp::NegBreak(n) => {
                wf = wf.negative_exponent_break(NonZeroI32::new(*n));
                negb = NonZeroI32::new(*n);
            },
            OptOp::Trim(b) => {
                wf = wf.trim_floats(*b);
                trim = *b;
            },
            OptOp::Round(b) => {
                wf = wf.round_mode(if *b { RoundMode::Truncate } else { RoundMode::Round });
                round_trunc = *b;
            },
            OptOp::NoMulti(b) => {
                pi = pi.no_multi_digit(*b);
                nomulti = *b;
            },
        }
    }
    let fail = |what: &str| Err(Fail::new(format!("options builder after {ops:?}: {what}")));
    // builder getters
    if pf.get_lossy() != lossy || pf.get_exponent() != pexp || pf.get_decimal_point() != ppoint || pf.get_nan_string() != pnan || pf.get_inf_string() != pinf || pf.get_infinity_string() != pinfinity {
        return fail("ParseFloatOptionsBuilder getters do not reflect the last setters");
    }
    // built options getters + rebuild round trip
    let o = pf.build_unchecked();
    if o.lossy() != lossy || o.exponent() != pexp || o.decimal_point() != ppoint || o.nan_string() != pnan || o.inf_string() != pinf || o.infinity_string() != pinfinity {
        return fail("ParseFloatOptions getters do not reflect the builder");
    }
    if o.rebuild().build_unchecked() != o {
        return fail("ParseFloatOptions rebuild round trip differs");
    }
    let w = wf.build_unchecked();
    if w.exponent() != wexp || w.decimal_point() != wpoint || w.nan_string() != wnan || w.inf_string() != winf || w.max_significant_digits() != maxd || w.min_significant_digits() != mind
        || w.positive_exponent_break() != posb || w.negative_exponent_break() != negb || w.trim_floats() != trim || (w.round_mode() == RoundMode::Truncate) != round_trunc
    {
        return fail("WriteFloatOptions getters do not reflect the last setters");
    }
    if w.rebuild().build_unchecked() != w {
        return fail("WriteFloatOptions rebuild round trip differs");
    }
    let p = pi.build_unchecked();
    if p.get_no_multi_digit() != nomulti || p.rebuild().build_unchecked() != p {
        return fail("ParseIntegerOptions getter / rebuild differs");
    }
    // build(): Ok exactly when is_valid() for the parse options (documented string rules)
    let str_ok = |s: Option<&[u8]>, first: u8| s.map_or(true, |s| !s.is_empty() && s.len() <= 50 && s[0].eq_ignore_ascii_case(&first) && s.iter().all(|c| c.is_ascii_alphabetic()));
    let model_ok = vcore::fmodel::is_valid_ascii(pexp) && vcore::fmodel::is_valid_ascii(ppoint) && str_ok(pnan, b'n') && str_ok(pinf, b'i') && str_ok(pinfinity, b'i')
        && match (pinf, pinfinity) {
            (Some(a), Some(b)) => b.len() >= a.len(),
            // a short infinity string needs a long one at least as long (None counts as empty)
            (Some(_), None) => false,
            _ => true,
        };
    let built = pf.build();
    if built.is_ok() != model_ok {
        l.class("ORACLE-NOTE:parse-options-validity-differs");
        return fail(&format!("ParseFloatOptionsBuilder::build() is {:?} but the documented option rules say valid={model_ok}", built.as_ref().map(|_| ()).map_err(|e| err_kind(e))));
    }
    // write options: exponent / decimal point valid ASCII, strings by the same letter rules
    let wmodel_ok = vcore::fmodel::is_valid_ascii(wexp) && vcore::fmodel::is_valid_ascii(wpoint) && str_ok(wnan, b'n') && str_ok(winf, b'i')
        // documented by the builder's errors: max >= min digits, breaks on their own side of zero
        && maxd.map_or(usize::MAX, |x| x.get()) >= mind.map_or(0, |x| x.get())
        && negb.map_or(0, |x| x.get()) <= 0
        && posb.map_or(0, |x| x.get()) >= 0;
    if wf.is_valid() != wmodel_ok || wf.build().is_ok() != wmodel_ok {
        return fail(&format!("WriteFloatOptionsBuilder::is_valid() = {}, build() ok = {} but the documented option rules say valid={wmodel_ok}", wf.is_valid(), wf.build().is_ok()));
    }
    if pf.is_valid() != model_ok {
        return fail(&format!("ParseFloatOptionsBuilder::is_valid() = {} but build() ok = {model_ok}", pf.is_valid()));
    }
    Ok(())
}

#[cfg(all(feature = "format", feature = "power-of-two"))]
mod fb {
    //! format builder setter sequences (needs every setter: format + power-of-two)
    use super::*;
    use std::num::NonZeroU8;

    #[derive(Clone, Debug)]
    pub enum Op {
        Flag(u8, bool),
        Sep(u8),
        Prefix(u8),
        Suffix(u8),
        Radix(u8),
        Base(u8),
        ERadix(u8),
    }

    pub fn ops() -> BoxedStrategy<Vec<Op>> {
        let b = || prop_oneof![Just(0u8), Just(b'_'), Just(b'x'), Just(b','), any::<u8>()];
        let op = prop_oneof![
            6 => (0u8..31, any::<bool>()).prop_map(|(f, v)| Op::Flag(f, v)),
            1 => b().prop_map(Op::Sep),
            1 => b().prop_map(Op::Prefix),
            1 => b().prop_map(Op::Suffix),
            1 => prop_oneof![Just(10u8), Just(16u8), Just(2u8), any::<u8>()].prop_map(Op::Radix),
            1 => prop_oneof![Just(0u8), Just(2u8), any::<u8>()].prop_map(Op::Base),
            1 => prop_oneof![Just(0u8), Just(10u8), any::<u8>()].prop_map(Op::ERadix),
        ];
        proptest::collection::vec(op, 0..16).boxed()
    }

    macro_rules! flag_table {
        ($($idx:expr, $bit:expr, $set:ident, $get:ident;)*) => {
            fn set_flag(b: NumberFormatBuilder, idx: u8, v: bool) -> NumberFormatBuilder {
                match idx { $($idx => b.$set(v),)* _ => b }
            }
            fn get_flag(b: &NumberFormatBuilder, idx: u8) -> bool {
                match idx { $($idx => b.$get(),)* _ => false }
            }
            fn flag_bit(idx: u8) -> u32 {
                match idx { $($idx => $bit,)* _ => 0 }
            }
        };
    }
    flag_table! {
        0, 0, required_integer_digits, get_required_integer_digits;
        1, 1, required_fraction_digits, get_required_fraction_digits;
        2, 2, required_exponent_digits, get_required_exponent_digits;
        3, 3, required_mantissa_digits, get_required_mantissa_digits;
        4, 4, no_positive_mantissa_sign, get_no_positive_mantissa_sign;
        5, 5, required_mantissa_sign, get_required_mantissa_sign;
        6, 6, no_exponent_notation, get_no_exponent_notation;
        7, 7, no_positive_exponent_sign, get_no_positive_exponent_sign;
        8, 8, required_exponent_sign, get_required_exponent_sign;
        9, 9, no_exponent_without_fraction, get_no_exponent_without_fraction;
        10, 10, no_special, get_no_special;
        11, 11, case_sensitive_special, get_case_sensitive_special;
        12, 12, no_integer_leading_zeros, get_no_integer_leading_zeros;
        13, 13, no_float_leading_zeros, get_no_float_leading_zeros;
        14, 14, required_exponent_notation, get_required_exponent_notation;
        15, 15, case_sensitive_exponent, get_case_sensitive_exponent;
        16, 16, case_sensitive_base_prefix, get_case_sensitive_base_prefix;
        17, 17, case_sensitive_base_suffix, get_case_sensitive_base_suffix;
        18, 32, integer_internal_digit_separator, get_integer_internal_digit_separator;
        19, 33, fraction_internal_digit_separator, get_fraction_internal_digit_separator;
        20, 34, exponent_internal_digit_separator, get_exponent_internal_digit_separator;
        21, 35, integer_leading_digit_separator, get_integer_leading_digit_separator;
        22, 36, fraction_leading_digit_separator, get_fraction_leading_digit_separator;
        23, 37, exponent_leading_digit_separator, get_exponent_leading_digit_separator;
        24, 38, integer_trailing_digit_separator, get_integer_trailing_digit_separator;
        25, 39, fraction_trailing_digit_separator, get_fraction_trailing_digit_separator;
        26, 40, exponent_trailing_digit_separator, get_exponent_trailing_digit_separator;
        27, 41, integer_consecutive_digit_separator, get_integer_consecutive_digit_separator;
        28, 42, fraction_consecutive_digit_separator, get_fraction_consecutive_digit_separator;
        29, 43, exponent_consecutive_digit_separator, get_exponent_consecutive_digit_separator;
        30, 44, special_digit_separator, get_special_digit_separator;
    }

    pub fn check(ops: &Vec<Op>, l: &mut Local) -> CaseResult {
        l.eval(1);
        if ops.len() >= 3 {
            l.nontrivial_hash(hash_bytes(format!("{ops:?}").as_bytes()));
        }
        let mut b = NumberFormatBuilder::new();
        let mut flags: u128 = 0xc;
        let (mut sep, mut prefix, mut suffix, mut radix, mut base, mut eradix) = (0u8, 0u8, 0u8, 10u8, 0u8, 0u8);
        for op in ops {
            match op {
                Op::Flag(i, v) => {
                    b = set_flag(b, *i, *v);
                    let bit = 1u128 << flag_bit(*i);
                    flags = if *v { flags | bit } else { flags & !bit };
                },
                Op::Sep(c) => {
                    b = b.digit_separator(NonZeroU8::new(*c));
                    sep = *c;
                },
                Op::Prefix(c) => {
                    b = b.base_prefix(NonZeroU8::new(*c));
                    prefix = *c;
                },
                Op::Suffix(c) => {
                    b = b.base_suffix(NonZeroU8::new(*c));
                    suffix = *c;
                },
                Op::Radix(r) => {
                    b = b.mantissa_radix(*r);
                    radix = *r;
                },
                Op::Base(r) => {
                    b = b.exponent_base(NonZeroU8::new(*r));
                    base = *r;
                },
                Op::ERadix(r) => {
                    b = b.exponent_radix(NonZeroU8::new(*r));
                    eradix = *r;
                },
            }
        }
        let fail = |what: String| Err(Fail::new(format!("NumberFormatBuilder after {ops:?}: {what}")));
        for i in 0..31u8 {
            let want = (flags >> flag_bit(i)) & 1 == 1;
            if get_flag(&b, i) != want {
                return fail(format!("getter for flag bit {} returns {}, last value set was {want}", flag_bit(i), get_flag(&b, i)));
            }
        }
        let g = |o: Option<NonZeroU8>| o.map_or(0, |x| x.get());
        if g(b.get_digit_separator()) != sep || g(b.get_base_prefix()) != prefix || g(b.get_base_suffix()) != suffix || b.get_mantissa_radix() != radix || g(b.get_exponent_base()) != base || g(b.get_exponent_radix()) != eradix {
            return fail("punctuation / radix getters do not reflect the last setters".into());
        }
        // the packed value follows the documented layout (separator byte only stored with a separator flag)
        let any_sep_flag = (flags >> 32) & 0x1fff != 0;
        let want = super::encode(flags, if any_sep_flag { sep } else { 0 }, prefix, suffix, radix, base, eradix);
        let got = b.build_unchecked();
        if got != want {
            return fail(format!("build_unchecked() = {got:#034x}, documented layout gives {want:#034x}"));
        }
        super::check_packed(got, l)
    }
}

pub fn run(ctx: &Ctx, rep: &mut Report) {
    rep.rule = "cases: (a) packed formats through the run-time builder (rebuild -> build_unchecked / build_strict under \
        catch_unwind): exhaustive over all 2^18 syntax-flag words, all 2^13 separator-flag words x {separator set, unset}, all 256 \
        values of each of separator / prefix / suffix / mantissa radix / exponent base / exponent radix (in radix 10 and 16 \
        contexts), all triples of punctuation from a 12-byte set, plus generated joint states; (b) every catalogue entry: \
        compile-time format_is_valid / format_error vs the documented rules vs the run-time builder; (c) every compiled invalid \
        format x arbitrary inputs: complete parsers return exactly format_error, partial parsers a configuration error, never a \
        value or panic; (d) valid formats x generated decimal point / exponent options: invalid punctuation must give \
        InvalidPunctuation from complete and partial float parsers; (e) generated setter sequences on the format builder and the \
        options builders: getters reflect the last setter, documented bit layout, rebuild round trips, parse-option validity. \
        Oracle for validity: reference predicate written from the documentation (harness/vcore/fmodel.rs). non-trivial = a state \
        invalid for exactly one reason or valid with >= 3 non-default fields (a), an invalid format / invalid punctuation with an \
        input (c, d), a setter sequence of length >= 3 (e)."
        .into();
    rep.assumptions = vec![
        "valid punctuation bytes are the documented 'valid ASCII for float grammar' set (0x09-0x0d, 0x20-0x7e)".into(),
        "when several rules are violated the reported error may be any of them (precedence is not documented)".into(),
    ];
    // (a) exhaustive groups
    let groups: Vec<(&str, u64)> = vec![("syntax-flags", 1 << 18), ("separator-flags", 1 << 14), ("bytes", 256 * 6 * 2), ("punct-triples", 12 * 12 * 12)];
    let punct12: [u8; 12] = [0, b'_', b',', b'x', b'h', b'e', b'9', b'+', b'-', 0x80, b'\t', b'a'];
    for (gname, total) in groups {
        let n_chunks = 64usize;
        run_enum(rep, ctx, &format!("exhaustive:{gname}"), n_chunks, |ci, l, viol| {
            let per = (total + n_chunks as u64 - 1) / n_chunks as u64;
            for idx in ci as u64 * per..((ci as u64 + 1) * per).min(total) {
                let packed = match gname {
                    "syntax-flags" => encode(idx as u128, 0, 0, 0, 10, 0, 0),
                    "separator-flags" => {
                        let sepflags = ((idx & 0x1fff) as u128) << 32;
                        encode(0xc | sepflags, if idx >> 13 == 1 { b'_' } else { 0 }, 0, 0, 10, 0, 0)
                    },
                    "bytes" => {
                        let v = (idx % 256) as u8;
                        let field = (idx / 256) % 6;
                        let ctx16 = idx / (256 * 6) == 1;
                        let r = if ctx16 { 16 } else { 10 };
                        match field {
                            0 => encode(0xc | (1 << 32), v, 0, 0, r, 0, 0),
                            1 => encode(0xc, 0, v, 0, r, 0, 0),
                            2 => encode(0xc, 0, 0, v, r, 0, 0),
                            3 => encode(0xc, 0, 0, 0, v, 0, 0),
                            4 => encode(0xc, 0, 0, 0, r, v, 0),
                            _ => encode(0xc, 0, 0, 0, r, 0, v),
                        }
                    },
                    _ => {
                        let (a, b, c) = (punct12[(idx % 12) as usize], punct12[((idx / 12) % 12) as usize], punct12[((idx / 144) % 12) as usize]);
                        encode(0xc | (1 << 32), a, b, c, 16, 0, 0)
                    },
                };
                if let Err(f) = check_packed(packed, l) {
                    if filter_known(ctx, l, &f) {
                        viol.push((f.message, json!({"packed": format!("{packed:#034x}")})));
                        return;
                    }
                }
            }
        });
    }
    rep.exhaustive.push("all 2^18 syntax-flag words; all 2^13 separator-flag words x {separator set, unset}; all 256 values of each punctuation / radix field (radix 10 and 16 contexts); all triples of punctuation from a 12-byte set".into());
    run_prop(rep, ctx, "generated:joint-states", ctx.n(400_000, 20_000_000), packed_strategy, |p| json!({"packed": format!("{p:#034x}")}), |p, l| check_packed(*p, l));
    // (b) + (c)
    let inputs: Vec<Vec<u8>> = {
        let strat = prop_oneof![
            gen::grammar_text(vcore::numtext::Radices::DECIMAL, b'.', b'e').prop_map(|(t, _)| t),
            proptest::collection::vec(any::<u8>(), 0..12),
            Just(b"0".to_vec()),
            Just(b"".to_vec()),
            Just(b"nan".to_vec()),
            Just(b"1.5e3".to_vec()),
            Just(b"+12".to_vec()),
        ];
        sample_strategy(&strat, mix(ctx.seed, &["c18-inputs"]), ctx.n(300, 20_000) as usize)
    };
    let n_entries = cat().entries.len();
    let inputs_ref = &inputs;
    run_enum(rep, ctx, "catalogue:compile-time-agreement+invalid-formats", n_entries, |i, l, viol| {
        if let Err(f) = check_entry(i, l, inputs_ref) {
            if filter_known(ctx, l, &f) {
                viol.push((f.message, json!({"entry": cat().entries[i].name})));
            }
        }
    });
    // (d) invalid punctuation options
    let valid_float_entries: Vec<usize> = (0..n_entries).filter(|&i| cat().entries[i].is_valid && cat().entries[i].pf[1].is_some() && cat().models[i].float_radix_pair_ok()).collect();
    let vfe = valid_float_entries.clone();
    run_prop(
        rep,
        ctx,
        "generated:invalid-punctuation-options",
        ctx.n(300_000, 20_000_000),
        move || {
            let vfe = vfe.clone();
            let b = || prop_oneof![Just(b'.'), Just(b'e'), Just(b','), Just(b'_'), Just(b'x'), Just(b'h'), Just(b'1'), Just(b'a'), Just(b'+'), Just(b'-'), Just(0u8), Just(0x80u8), Just(b'^'), any::<u8>()];
            (any::<u16>(), b(), b(), prop_oneof![Just(b"1.5e3".to_vec()), Just(b"0".to_vec()), Just(b"".to_vec()), Just(b"nan".to_vec()), proptest::collection::vec(any::<u8>(), 0..8)], any::<u8>())
                .prop_map(move |(ei, point, mut exp, input, sel)| {
                    let entry = vfe[gen::pick(ei, vfe.len())];
                    // the format's own punctuation in the other letter case
                    let m = &cat().models[entry];
                    let own = [m.digit_separator, m.base_prefix, m.base_suffix];
                    let c = own[(sel % 3) as usize];
                    if sel < 96 && c.is_ascii_alphabetic() {
                        exp = c ^ 0x20;
                    }
                    PunctCase { entry, point, exp, input }
                })
                .boxed()
        },
        punct_json,
        check_punct,
    );
    // (e) builders
    run_prop(rep, ctx, "generated:options-builder-sequences", ctx.n(150_000, 5_000_000), opt_ops, |ops| json!({"ops": format!("{ops:?}")}), check_opt_ops);
    #[cfg(all(feature = "format", feature = "power-of-two"))]
    run_prop(rep, ctx, "generated:format-builder-sequences", ctx.n(200_000, 10_000_000), fb::ops, |ops| json!({"ops": format!("{ops:?}")}), fb::check);
}

pub fn replay(_ctx: &Ctx, case: &Value) -> CaseResult {
    let mut l = Local::new();
    if let Some(p) = case["packed"].as_str() {
        let packed = u128::from_str_radix(p.trim_start_matches("0x"), 16).unwrap_or(0);
        return check_packed(packed, &mut l);
    }
    if let Some(name) = case["entry"].as_str() {
        let i = cat().idx(name).ok_or_else(|| Fail::new("entry not compiled"))?;
        let inputs = vec![b"1.5e3".to_vec(), b"".to_vec(), b"0".to_vec(), b"nan".to_vec(), b"+12".to_vec(), vec![0xff, b'1']];
        return check_entry(i, &mut l, &inputs);
    }
    if let Some(fmt) = case["format"].as_str() {
        let entry = cat().idx(fmt).ok_or_else(|| Fail::new("format not compiled"))?;
        let c = PunctCase { entry, point: case["decimal_point"].as_u64().unwrap_or(46) as u8, exp: case["exponent"].as_u64().unwrap_or(101) as u8, input: unhex(case["text_hex"].as_str().unwrap_or("")) };
        return check_punct(&c, &mut l);
    }
    Err(Fail::new("builder-sequence failures are replayed by re-running the check with the same VERIF_SEED (sequence is in the message)"))
}
