//! Byte decoders shared by the cargo-fuzz targets: the fuzzer's bytes are turned into *valid*
//! structured cases (number text of a radix, write options from the builders' valid set), so a
//! campaign spends its time behind input validation. No randomness: a pure function of the bytes.

use crate::c15::pool;
use crate::wopts::{valid_punct, WOpts};
use vcore::fmodel::FormatModel;
use vcore::numtext::Radices;

/// once per process: route panics (see `vcore::report::install_fuzz_panic_hook`)
pub fn init() {
    static ONCE: std::sync::Once = std::sync::Once::new();
    ONCE.call_once(vcore::report::install_fuzz_panic_hook);
}

pub struct Bytes<'a> {
    d: &'a [u8],
    i: usize,
}

impl<'a> Bytes<'a> {
    pub fn new(d: &'a [u8]) -> Bytes<'a> {
        Bytes { d, i: 0 }
    }
    pub fn left(&self) -> usize {
        self.d.len().saturating_sub(self.i)
    }
    /// next byte; 0 once the data is exhausted (cases stay well-formed)
    pub fn u8(&mut self) -> u8 {
        let b = self.d.get(self.i).copied().unwrap_or(0);
        self.i += 1;
        b
    }
    pub fn u16(&mut self) -> u16 {
        u16::from_le_bytes([self.u8(), self.u8()])
    }
    pub fn u32(&mut self) -> u32 {
        u32::from_le_bytes([self.u8(), self.u8(), self.u8(), self.u8()])
    }
    pub fn u64(&mut self) -> u64 {
        (self.u32() as u64) | ((self.u32() as u64) << 32)
    }
    pub fn u128(&mut self) -> u128 {
        (self.u64() as u128) | ((self.u64() as u128) << 64)
    }
    pub fn below(&mut self, n: usize) -> usize {
        if n <= 1 {
            return 0;
        }
        if n <= 256 {
            self.u8() as usize % n
        } else {
            self.u16() as usize % n
        }
    }
    pub fn rest(&mut self) -> &'a [u8] {
        let r = &self.d[self.i.min(self.d.len())..];
        self.i = self.d.len();
        r
    }
}

fn digit_char(d: u32, lower: bool) -> u8 {
    if d < 10 {
        b'0' + d as u8
    } else if lower {
        b'a' + (d - 10) as u8
    } else {
        b'A' + (d - 10) as u8
    }
}

/// a number text `[+-] digits [point digits] [ec [+-] digits]` of the given radices
pub fn number_text(b: &mut Bytes, rx: Radices, point: u8, ec: u8) -> Vec<u8> {
    let mut t = Vec::new();
    let head = b.u8();
    match head & 3 {
        1 => t.push(b'-'),
        2 => t.push(b'+'),
        _ => {},
    }
    let lower = head & 4 != 0;
    if head & 8 != 0 {
        let z = b.u8() as usize % 48;
        t.extend(std::iter::repeat(b'0').take(z));
    }
    let ni = match (head >> 4) & 3 {
        0 => 0,
        1 => 1 + b.u8() as usize % 3,
        2 => b.u8() as usize % 24,
        _ => b.u8() as usize,
    };
    let mut nd = 0;
    for _ in 0..ni.min(b.left() + 1) {
        t.push(digit_char(b.u8() as u32 % rx.mant, lower));
        nd += 1;
    }
    let frac = head & 0x40 != 0;
    if frac {
        t.push(point);
        let h2 = b.u8();
        if h2 & 1 != 0 {
            let z = b.u8() as usize % 64;
            t.extend(std::iter::repeat(b'0').take(z));
            nd += z;
        }
        let nf = match (h2 >> 1) & 3 {
            0 => 0,
            1 => 1 + b.u8() as usize % 4,
            2 => b.u8() as usize % 40,
            _ => b.u16() as usize % 900,
        };
        for _ in 0..nf.min(b.left() + 1) {
            t.push(digit_char(b.u8() as u32 % rx.mant, lower));
            nd += 1;
        }
    }
    if nd == 0 {
        t.push(b'1');
    }
    if head & 0x80 != 0 {
        t.push(ec);
        let h3 = b.u8();
        match h3 & 3 {
            1 => t.push(b'-'),
            2 => t.push(b'+'),
            _ => {},
        }
        let mut e: u64 = match (h3 >> 2) & 3 {
            0 => b.u8() as u64 % 40,
            1 => b.u16() as u64 % 1200,
            2 => b.u32() as u64,
            _ => b.u64(),
        };
        // written in the exponent radix
        let mut ds = Vec::new();
        loop {
            ds.push(digit_char((e % rx.exp as u64) as u32, lower));
            e /= rx.exp as u64;
            if e == 0 {
                break;
            }
        }
        ds.reverse();
        t.extend(ds);
    }
    t
}

/// valid write options for a format (the builders' valid set; `extreme` = C09's ranges)
pub fn write_options(b: &mut Bytes, m: &FormatModel, extreme: bool) -> WOpts {
    let punct = valid_punct(m);
    let h = b.u8();
    let digits = |b: &mut Bytes, sel: u8| -> u32 {
        match sel & 3 {
            0 => 0,
            1 => 1 + b.u8() as u32 % 20,
            2 => 1 + b.u8() as u32 % 64,
            _ => {
                if extreme {
                    65 + b.u16() as u32 % 1900
                } else {
                    1 + b.u8() as u32 % 64
                }
            },
        }
    };
    let a = digits(b, h);
    let c = digits(b, h >> 2);
    let (max_digits, min_digits) = if a != 0 && c != 0 { (a.max(c), a.min(c)) } else { (a, c) };
    let brk = |b: &mut Bytes, sel: u8| -> i32 {
        match sel & 3 {
            0 => 0,
            1 => 1 + b.u8() as i32 % 24,
            2 => 1 + b.u16() as i32 % 1200,
            _ => {
                if extreme {
                    match b.u8() % 4 {
                        0 => i32::MAX,
                        1 => i32::MAX - 1,
                        _ => (b.u32() as i32 & i32::MAX).max(1),
                    }
                } else {
                    1 + b.u16() as i32 % 400
                }
            },
        }
    };
    let pos_break = brk(b, h >> 4);
    let nb = brk(b, h >> 6);
    let neg_break = if nb == i32::MAX && extreme { i32::MIN } else { -nb };
    let h2 = b.u8();
    let default_exp = if punct.contains(&b'e') { b'e' } else { b'^' };
    let (mut exponent, mut point) = (default_exp, b'.');
    if h2 & 4 != 0 {
        exponent = punct[b.below(punct.len())];
        point = punct[b.below(punct.len())];
    }
    if !punct.contains(&point) {
        point = punct[0];
    }
    if exponent.eq_ignore_ascii_case(&point) {
        exponent = *punct.iter().find(|&&c| !c.eq_ignore_ascii_case(&point)).unwrap();
    }
    let np = pool().nan.len();
    let ni = pool().inf.len();
    let nan = if h2 & 0x30 == 0x30 { usize::MAX } else if h2 & 0x10 != 0 { b.below(np) } else { 0 };
    let inf = if h2 & 0xc0 == 0xc0 { usize::MAX } else if h2 & 0x40 != 0 { b.below(ni) } else { 0 };
    WOpts { max_digits, min_digits, pos_break, neg_break, truncate: h2 & 1 != 0, trim: h2 & 2 != 0, exponent, point, nan, inf }
}
