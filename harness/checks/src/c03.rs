//! C03 — integer -> string is the exact canonical numeral in every radix.

use crate::cat::cat;
use crate::lex::*;
use catalogue::{int_formatted_size, INT_BITS, INT_NAMES, INT_SIGNED};
use proptest::prelude::*;
use serde_json::{json, Value};
use vcore::gen;
use vcore::report::*;

const CANARY: u8 = 0xA5;
const PAD: usize = 64;

#[derive(Clone, Debug)]
pub struct Case {
    pub ty: usize,
    pub entry: usize,
    pub value: u128,
}

fn case_json(c: &Case) -> Value {
    let e = &cat().entries[c.entry];
    json!({"type": INT_NAMES[c.ty], "format": e.name, "value_hex": format!("{:#x}", c.value),
           "value": if INT_SIGNED[c.ty] { (c.value as i128).to_string() } else { c.value.to_string() }})
}

/// write through the options API of catalogue entry `entry`
pub fn check_write(c: &Case, l: &mut Local) -> CaseResult {
    let e = &cat().entries[c.entry];
    let m = &cat().models[c.entry];
    let (wi, _bs) = match e.wi[c.ty] {
        Some(x) => x,
        None => return Err(Fail::new(format!("no integer writer compiled for {} {}", e.name, INT_NAMES[c.ty]))),
    };
    let radix = m.mantissa_radix();
    let bits = INT_BITS[c.ty];
    let signed = INT_SIGNED[c.ty];
    let v = gen::wrap_int(c.value, bits, signed);
    let plus = m.required_mantissa_sign && cfg!(feature = "format");
    let want = gen::ref_numeral(v, bits, signed, radix, plus);
    let (dec, any) = int_formatted_size(c.ty);
    // documented bound: FORMATTED_SIZE_DECIMAL for radix 10, FORMATTED_SIZE otherwise (+1 for a
    // required '+' sign which the documented constants do not include for unsigned types)
    let bound = if radix == 10 { dec } else { any } + if plus { 1 } else { 0 };
    let mut buf = vec![CANARY; PAD + bound + PAD];
    let opts = lexical_core::WriteIntegerOptions::new();
    let res = guard(|| wi(v, &mut buf[PAD..PAD + bound], &opts));
    l.eval(1);
    let name = INT_NAMES[c.ty];
    let ndig = want.len() - (want[0] == b'-' || want[0] == b'+') as usize;
    let nontrivial = ndig >= 3 || want[0] == b'-';
    if nontrivial {
        l.nontrivial_hash(splitmix(v as u64 ^ ((v >> 64) as u64).rotate_left(17) ^ ((c.ty as u64) << 56) ^ ((radix as u64) << 48)));
        if l.want_sample() {
            l.sample(case_json(c));
        }
    }
    l.class(&format!("radix{radix}:digits{ndig}"));
    let (off, len) = match res {
        Ok(x) => x,
        Err(p) => return Err(Fail::new(format!("write_with_options::<{name}, {}>({}) panicked with a buffer of the documented size {bound}: {p}", e.name, case_json(c)["value"]))),
    };
    if off != 0 {
        return Err(Fail::new(format!("{name} {}: returned slice starts {off} bytes into the buffer", e.name)));
    }
    if len > bound {
        return Err(Fail::new(format!("{name} {}: returned length {len} exceeds bound {bound}", e.name)));
    }
    let got = &buf[PAD..PAD + len];
    if got != &want[..] {
        return Err(Fail::new(format!("{name} radix {radix} ({}) value {}: wrote {:?}, canonical numeral is {:?}", e.name, case_json(c)["value"], show(got), show(&want))));
    }
    if buf[..PAD].iter().any(|&b| b != CANARY) || buf[PAD + bound..].iter().any(|&b| b != CANARY) {
        return Err(Fail::new(format!("{name} {}: bytes outside the caller's slice were modified", e.name)));
    }
    Ok(())
}

/// default API (`lexical_core::write`, `lexical::to_string`): decimal must equal Display / itoa
fn check_default<T: IntT + itoa::Integer>(v: T, l: &mut Local) -> CaseResult {
    let mut buf = [CANARY; 128];
    let size = <T as lexical_core::FormattedSize>::FORMATTED_SIZE_DECIMAL;
    let want = format!("{v}");
    l.eval(1);
    let r = guard(|| {
        let base = buf.as_ptr() as usize;
        let out = lexical_core::write(v, &mut buf[..size]);
        (out.as_ptr() as usize - base, out.len())
    });
    let (off, len) = match r {
        Ok(x) => x,
        Err(p) => return Err(Fail::new(format!("write::<{}>({want}) panicked with FORMATTED_SIZE_DECIMAL buffer: {p}", T::NAME))),
    };
    if off != 0 || &buf[..len] != want.as_bytes() {
        return Err(Fail::new(format!("write::<{}>({want}) = {:?} (offset {off}), Display gives {want:?}", T::NAME, show(&buf[..len]))));
    }
    if buf[size..].iter().any(|&b| b != CANARY) {
        return Err(Fail::new(format!("write::<{}>({want}) wrote past FORMATTED_SIZE_DECIMAL", T::NAME)));
    }
    let mut ib = itoa::Buffer::new();
    if ib.format(v) != want {
        l.class("ORACLE-DISCREPANCY:itoa-vs-display");
    }
    if want.len() >= 3 {
        l.nontrivial_bytes(T::BITS as u64 + 1000 * T::SIGNED as u64, want.as_bytes());
    }
    Ok(())
}

fn default_api_strategy<T: IntT>() -> BoxedStrategy<u128> {
    gen::int_value(T::BITS, T::SIGNED, 10)
}

macro_rules! default_api {
    ($rep:ident, $ctx:ident, $n:expr, $($t:ident)*) => {$(
        run_prop($rep, $ctx, &format!("default-api:{}", stringify!($t)), $n, || default_api_strategy::<$t>(),
            |v| json!({"type": stringify!($t), "value_hex": format!("{:#x}", v)}),
            |v, l| check_default::<$t>(<$t as IntT>::from_u128(*v), l));
    )*};
}

pub fn run(ctx: &Ctx, rep: &mut Report) {
    rep.rule = "cases: (a) exhaustive: every u8/i8/u16/i16 value x every radix compiled in this configuration through \
        write_with_options; (a2) enumerated 2^k + d, |d| <= 40, and negatives for the wider types x every radix; (b) generated values \
        of the wider types (uniform, log-uniform bit length, r^k-1/r^k/r^k+1, 2^k + d, u128 chunk products incl. a first \
        quotient of 2^64 +- 1, MIN/MAX edges) x every radix; (c) default API vs Display/itoa. Oracle: naive reference numeral \
        (repeated u128 divrem, digits 0-9A-Z), slice offset 0, exact length, canary outside an exactly FORMATTED_SIZE \
        buffer. non-trivial = numeral with >= 3 digits or negative; distinct = distinct (type, radix, value)."
        .into();
    rep.assumptions = vec!["reference numeral computed with native u128 division".into()];
    let radixes = cat().radix_entries();
    // (a) exhaustive small types
    let small: [usize; 4] = [0, 6, 1, 7];
    let chunks: Vec<(usize, usize)> = small.iter().flat_map(|&t| radixes.iter().map(move |&(_, ei)| (t, ei))).collect();
    run_enum(rep, ctx, "exhaustive:8/16-bit", chunks.len(), |ci, l, viol| {
        let (ty, entry) = chunks[ci];
        let n: u128 = 1u128 << INT_BITS[ty];
        for raw in 0..n {
            let c = Case { ty, entry, value: gen::wrap_int(raw, INT_BITS[ty], INT_SIGNED[ty]) };
            if let Err(f) = check_write(&c, l) {
                if filter_known(ctx, l, &f) {
                    viol.push((f.message, case_json(&c)));
                    return;
                }
            }
        }
    });
    rep.exhaustive.push(format!("all u8/i8/u16/i16 values x {} radices (write_with_options)", radixes.len()));
    // (a2) enumerated: binary boundaries 2^k + d, |d| <= 40, and their negatives, for every wider type x every radix (word
    // splits and the fast-path bounds of the 128-bit division sit at powers of two whatever the radix)
    let wide_all: [usize; 8] = [2, 3, 4, 5, 8, 9, 10, 11];
    let chunks2: Vec<(usize, usize)> = wide_all.iter().flat_map(|&t| radixes.iter().map(move |&(_, ei)| (t, ei))).collect();
    run_enum(rep, ctx, "enumerated:binary-boundaries", chunks2.len(), |ci, l, viol| {
        let (ty, entry) = chunks2[ci];
        for k in 0..INT_BITS[ty] {
            for d in -40i32..=40 {
                let raw = (1u128 << k).wrapping_add(d as i128 as u128);
                for neg in [false, true] {
                    if neg && !INT_SIGNED[ty] {
                        continue;
                    }
                    let c = Case { ty, entry, value: gen::wrap_int(if neg { raw.wrapping_neg() } else { raw }, INT_BITS[ty], INT_SIGNED[ty]) };
                    if let Err(f) = check_write(&c, l) {
                        if filter_known(ctx, l, &f) {
                            viol.push((f.message, case_json(&c)));
                            return;
                        }
                    }
                }
            }
        }
    });
    rep.exhaustive.push(format!("2^k + d (|d| <= 40) and negatives for the 32/64/128-bit and pointer-sized types x {} radices", radixes.len()));
    // (b) generated wider types x radices
    let wide: Vec<usize> = vec![2, 3, 4, 5, 8, 9, 10, 11];
    let n = ctx.n(400_000, 60_000_000);
    let rx = radixes.clone();
    run_prop(
        rep,
        ctx,
        "generated:wide-types",
        n,
        || {
            let rx = rx.clone();
            let wide = wide.clone();
            (any::<u16>(), any::<u16>())
                .prop_flat_map(move |(ti, ri)| {
                    let ty = wide[gen::pick(ti, wide.len())];
                    let (radix, entry) = rx[gen::pick(ri, rx.len())];
                    gen::int_value(INT_BITS[ty], INT_SIGNED[ty], radix).prop_map(move |value| Case { ty, entry, value })
                })
                .boxed()
        },
        case_json,
        check_write,
    );
    // formats that require a '+' sign (format feature)
    let plus_entries: Vec<usize> = cat().group("write").into_iter().filter(|&i| cat().entries[i].wi.iter().any(|w| w.is_some())).collect();
    if !plus_entries.is_empty() {
        let pe = plus_entries.clone();
        run_prop(
            rep,
            ctx,
            "generated:sign-flag-formats",
            ctx.n(100_000, 5_000_000),
            || {
                let pe = pe.clone();
                (any::<u16>(), any::<bool>())
                    .prop_flat_map(move |(ei, which)| {
                        let entry = pe[gen::pick(ei, pe.len())];
                        let ty = if which { 8 } else { 3 }; // i32 / u64 are the compiled ones
                        let radix = cat().models[entry].mantissa_radix();
                        gen::int_value(INT_BITS[ty], INT_SIGNED[ty], radix).prop_map(move |value| Case { ty, entry, value })
                    })
                    .boxed()
            },
            case_json,
            check_write,
        );
    }
    // (c) default API
    let nd = ctx.n(60_000, 5_000_000);
    default_api!(rep, ctx, nd, u8 u16 u32 u64 u128 usize i8 i16 i32 i64 i128 isize);
    // per-radix digit-count coverage summary
    let mut min_hits: Option<(String, u64)> = None;
    for (_, l) in rep.subchecks.iter() {
        for (k, v) in &l.classes {
            if k.starts_with("radix") {
                if min_hits.as_ref().map_or(true, |(_, m)| v < m) {
                    min_hits = Some((k.clone(), *v));
                }
            }
        }
    }
    if let Some((k, v)) = min_hits {
        rep.extra.insert("least_hit_radix_digit_count_class".into(), json!({"class": k, "hits": v}));
    }
}

pub fn replay(_ctx: &Ctx, case: &Value) -> CaseResult {
    let mut l = Local::new();
    let tyname = case["type"].as_str().unwrap_or("u64");
    let ty = INT_NAMES.iter().position(|n| *n == tyname).unwrap_or(3);
    let value = u128::from_str_radix(case["value_hex"].as_str().unwrap_or("0x0").trim_start_matches("0x"), 16).unwrap_or(0);
    if let Some(fmt) = case["format"].as_str() {
        let entry = match cat().idx(fmt) {
            Some(i) => i,
            None => return Err(Fail::new(format!("format {fmt} not compiled in this configuration"))),
        };
        check_write(&Case { ty, entry, value }, &mut l)
    } else {
        macro_rules! d {
            ($($t:ident)*) => { match tyname { $(stringify!($t) => check_default::<$t>(<$t as IntT>::from_u128(value), &mut l),)* _ => Ok(()) } };
        }
        d!(u8 u16 u32 u64 u128 usize i8 i16 i32 i64 i128 isize)
    }
}
