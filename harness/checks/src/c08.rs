//! C08 — what lexical writes, lexical parses back to the same value in the same format.

use crate::c05::{float_call, kind_of};
use crate::c06::do_write;
use crate::c12::Ty;
use crate::c15::pool;
use crate::cat::cat;
use crate::lex::*;
use crate::wopts::{self, WOpts};
use catalogue::{INT_BITS, INT_SIGNED};
use proptest::prelude::*;
use serde_json::{json, Value};
use vcore::gen;
use vcore::report::*;

#[derive(Clone, Debug)]
pub struct Job {
    pub entry: usize,
    pub ty: Ty,
}

#[derive(Clone, Debug)]
pub struct Case {
    pub value: u128,
    pub opts: WOpts,
    /// use a longer infinity_string than inf_string on the parse side
    pub long_infinity: bool,
}

pub fn case_json(j: &Job, c: &Case) -> Value {
    json!({"format": cat().entries[j.entry].name, "type": j.ty.name(), "value": format!("{:#x}", c.value), "options": c.opts.to_json(), "long_infinity": c.long_infinity})
}

pub fn check(j: &Job, c: &Case, l: &mut Local) -> CaseResult {
    let e = &cat().entries[j.entry];
    let m = &cat().models[j.entry];
    l.eval(1);
    let non_default_format = e.name != "STANDARD";
    let desc = |what: String| Fail::new(format!("{} {} [{}] value {:#x} options {}: {}", j.ty.name(), e.name, m.describe(), c.value, c.opts.to_json(), what));
    match j.ty {
        Ty::Int(ii) => {
            let (wi, bs) = e.wi[ii].expect("int writer");
            let (pi, _) = e.pi[ii].expect("int parser");
            let wo = lexical_core::WriteIntegerOptions::new();
            let size = bs(&wo);
            let mut buf = vec![0u8; size];
            let (off, len) = guard(|| wi(c.value, &mut buf, &wo)).map_err(|p| desc(format!("writer panicked: {p}")))?;
            let out = &buf[off..off + len];
            let po = lexical_core::ParseIntegerOptions::new();
            let back = match guard(|| pi(out, &po)) {
                Ok(Ok(v)) => POut::Ok(v, out.len()),
                Ok(Err(x)) => err_out(&x),
                Err(p) => POut::Panic(p),
            };
            if non_default_format {
                l.nontrivial_hash(splitmix(c.value as u64 ^ ((c.value >> 64) as u64).rotate_left(9) ^ ((j.entry as u64) << 40) ^ ((ii as u64) << 56)));
                if l.want_sample() {
                    l.sample(json!({"case": case_json(j, c), "written": show(out)}));
                }
            }
            let want = gen::wrap_int(c.value, INT_BITS[ii], INT_SIGNED[ii]);
            if back != POut::Ok(want, out.len()) {
                return Err(desc(format!("wrote {:?}, which the parser of the same format reads as {}", show(out), back.show())));
            }
        },
        Ty::Float(fi) => {
            let k = kind_of(fi);
            let bits = c.value as u64;
            let (pf, _) = e.pf[fi].expect("float parser");
            let p = pool();
            let nan = p.nan.get(c.opts.nan).copied();
            let inf = p.inf.get(c.opts.inf).copied();
            let special = !k.is_finite(bits);
            if special {
                if (k.is_nan(bits) && nan.is_none()) || (k.is_inf(bits) && inf.is_none()) {
                    l.class("skipped:special-with-disabled-string");
                    return Ok(());
                }
                // in large radices the special string itself is a valid number of the format: the
                // round trip is inherently ambiguous there, not a question of this property
                let s = if k.is_nan(bits) { nan.unwrap() } else { inf.unwrap() };
                let no_specials = vcore::refparse::OptModel { decimal_point: c.opts.point, exponent: c.opts.exponent, nan: None, inf: None, infinity: None };
                let numeric = matches!(vcore::refparse::ref_parse_float(s, m, &no_specials), vcore::refparse::RefF::Num(_));
                if numeric || s.iter().all(|&ch| vcore::numtext::digit_val(ch, m.mantissa_radix()).is_some()) {
                    l.class("skipped:special-string-is-numeric-in-this-radix");
                    return Ok(());
                }
                if m.no_special && cfg!(feature = "format") {
                    l.class("skipped:format-forbids-specials");
                    return Ok(());
                }
            }
            let out = do_write(j.entry, fi, bits, &c.opts.to_lexical()).map_err(|p| desc(format!("writer failed: {p}")))?;
            // parse options that agree with the write options
            let infinity: Option<&'static [u8]> = match inf {
                None => None,
                Some(s) => {
                    if c.long_infinity {
                        // a longer configured string from the pool, if any
                        p.inf.iter().copied().find(|x| x.len() > s.len()).or(Some(s))
                    } else {
                        Some(s)
                    }
                },
            };
            let po = lexical_core::ParseFloatOptions::builder().exponent(c.opts.exponent).decimal_point(c.opts.point).nan_string(nan).inf_string(inf).infinity_string(infinity).build_unchecked();
            if !po.is_valid() {
                l.class("skipped:parse-options-invalid");
                return Ok(());
            }
            let back = float_call(pf, &out, &po, k);
            let options_non_default = c.opts != WOpts::default_for(m);
            if non_default_format || options_non_default {
                l.nontrivial_hash(splitmix(bits ^ hash_bytes(&c.opts.to_bytes()) ^ ((j.entry as u64) << 44) ^ ((fi as u64) << 62)));
                if l.want_sample() {
                    l.sample(json!({"case": case_json(j, c), "written": show(&out)}));
                }
            }
            l.class(&format!("group:{}", e.group));
            let radix = m.mantissa_radix();
            let generic = radix != 10 && !matches!(radix, 2 | 4 | 8 | 16 | 32);
            match &back {
                POut::Ok(v, n) if *n == out.len() => {
                    if k.is_nan(bits) {
                        if *v != u128::MAX {
                            return Err(desc(format!("wrote {:?} for NaN, parsed back as {}", show(&out), back.show())));
                        }
                    } else if generic && k.is_finite(bits) && k.abs(bits) != 0 {
                        // generic radix: acceptance only (C07 bounds the value)
                        if *v == u128::MAX {
                            return Err(desc(format!("wrote {:?}, parsed back as NaN", show(&out))));
                        }
                    } else if *v != bits as u128 {
                        return Err(desc(format!("wrote {:?}, which the parser of the same format reads as {} instead of bits {:#x}", show(&out), back.show(), bits)));
                    }
                },
                other => {
                    return Err(desc(format!("wrote {:?}, which the complete parser of the same format does not accept in full: {}", show(&out), other.show())));
                },
            }
        },
    }
    Ok(())
}

pub fn jobs() -> Vec<Job> {
    let c = cat();
    let mut v = Vec::new();
    let mut seen = std::collections::HashSet::new();
    for g in ["core", "write", "syntax", "prebuilt"] {
        for i in c.group(g) {
            let e = &c.entries[i];
            let m = &c.models[i];
            if !e.is_valid {
                continue;
            }
            if let Ok(f) = std::env::var("VERIF_FORMATS") {
                if !e.name.contains(&f) {
                    continue;
                }
            }
            for fi in 0..2 {
                if e.wf[fi].is_some() && e.pf[fi].is_some() && m.float_radix_pair_ok() && seen.insert((e.packed, 100 + fi)) {
                    v.push(Job { entry: i, ty: Ty::Float(fi) });
                }
            }
            for ii in 0..12 {
                if e.wi[ii].is_some() && e.pi[ii].is_some() && seen.insert((e.packed, ii)) {
                    v.push(Job { entry: i, ty: Ty::Int(ii) });
                }
            }
        }
    }
    v
}

fn case_strategy(j: &Job) -> BoxedStrategy<Case> {
    let m = &cat().models[j.entry];
    match j.ty {
        Ty::Int(ii) => {
            let d = WOpts::default_for(m);
            gen::int_value(INT_BITS[ii], INT_SIGNED[ii], m.mantissa_radix()).prop_map(move |value| Case { value, opts: d.clone(), long_infinity: false }).boxed()
        },
        Ty::Float(fi) => {
            let k = kind_of(fi);
            let radix = m.mantissa_radix();
            let pow2 = matches!(radix, 2 | 4 | 8 | 16 | 32);
            let min_max: u32 = if pow2 { 64 } else if k.p == 53 { 17 } else { 9 };
            let specials = prop_oneof![Just(k.inf_bits()), Just(k.inf_bits() | k.sign_mask()), Just(k.inf_bits() | 1), Just(k.inf_bits() | k.sign_mask() | 99), Just(0u64), Just(k.sign_mask())];
            (prop_oneof![10 => gen::finite_bits(k), 2 => specials], wopts::strategy(m, false), any::<bool>())
                .prop_map(move |(bits, mut opts, long_infinity)| {
                    // no digit truncation: max digits None or at least the full precision
                    if opts.max_digits != 0 && opts.max_digits < min_max {
                        opts.max_digits = 0;
                    }
                    if opts.max_digits != 0 && opts.min_digits > opts.max_digits {
                        opts.min_digits = opts.max_digits;
                    }
                    Case { value: bits as u128, opts, long_infinity }
                })
                .boxed()
        },
    }
}

pub fn run(ctx: &Ctx, rep: &mut Report) {
    rep.rule = "cases: for every compiled format that has both a writer and a parser for a type (all 12 integer types x every radix \
        and sign-flag format; f32/f64 x core radices, mixed bases, write-flag formats, syntax-flag formats and the 147 prebuilt \
        language formats): generated values (integers: edges, r^k+-1, chunk products; floats: structured finite patterns, +-0, \
        +-inf, NaNs with either sign and payloads) x generated write options without digit truncation (max digits None or >= 17/9, \
        >= 64 for power-of-two radices; min digits, exponent breaks, trim, custom decimal point / exponent characters, nan/inf \
        strings from the pool or None) with parse options that agree on punctuation and special strings (infinity_string equal \
        to or longer than inf_string). Oracle: the complete parser of the same format accepts every written byte; bit-for-bit \
        equality for integers, decimal and power-of-two-radix floats and signed zeros, infinities and NaN->NaN when the format \
        permits specials and the strings are configured; acceptance only for generic radices. non-trivial = the format is not \
        STANDARD or the options are not default; distinct = distinct (format, type, value, options)."
        .into();
    rep.assumptions = vec![
        "specials are skipped when their string is None (documented panic, C15) or the format forbids specials".into(),
        "the known C14 findings concern digit truncation / notation with max_significant_digits below the full precision, which this check excludes by construction".into(),
    ];
    let js = jobs();
    let nf = js.iter().filter(|j| matches!(j.ty, Ty::Float(_))).count().max(1) as u64;
    let ni = js.iter().filter(|j| matches!(j.ty, Ty::Int(_))).count().max(1) as u64;
    let fj: Vec<Job> = js.iter().filter(|j| matches!(j.ty, Ty::Float(_))).cloned().collect();
    let ij: Vec<Job> = js.iter().filter(|j| matches!(j.ty, Ty::Int(_))).cloned().collect();
    run_prop_jobs(rep, ctx, "floats:write-then-parse", &fj, ctx.n((2_500_000 / nf).max(1500), (50_000_000 / nf).max(20_000)), case_strategy, case_json, check);
    run_prop_jobs(rep, ctx, "integers:write-then-parse", &ij, ctx.n((1_500_000 / ni).max(1000), (30_000_000 / ni).max(10_000)), case_strategy, case_json, check);
    // enumerated: every float whose shortest numeral is one or two digits times a power of ten (d * 10^e over the whole
    // exponent range), trim_floats off and on - with trimming the written text is an integer mantissa with an exponent
    // ("1e308"), which reaches the parser's range checks differently from "1.0e308"
    let ej: Vec<Job> = fj.iter().filter(|j| cat().models[j.entry].mantissa_radix() == 10 && cat().group("core").contains(&j.entry)).cloned().collect();
    run_enum(rep, ctx, "floats:short-decimals-enumerated", ej.len() * 2, |ci, l, viol| {
        let j = &ej[ci / 2];
        let m = &cat().models[j.entry];
        let fi = match j.ty {
            Ty::Float(fi) => fi,
            _ => return,
        };
        let k = kind_of(fi);
        let (lo, hi) = if k.p == 53 { (-330i32, 309i32) } else { (-50, 39) };
        for e in lo..=hi {
            for d in 1u32..=99 {
                let text = format!("{d}e{e}");
                let bits = if k.p == 53 { text.parse::<f64>().unwrap().to_bits() } else { text.parse::<f32>().unwrap().to_bits() as u64 };
                if bits == k.inf_bits() {
                    continue;
                }
                for neg in [false, true] {
                    let mut opts = WOpts::default_for(m);
                    opts.trim = ci % 2 == 1;
                    let c = Case { value: (if neg { bits | k.sign_mask() } else { bits }) as u128, opts, long_infinity: false };
                    if let Err(f) = check(j, &c, l) {
                        if filter_known(ctx, l, &f) {
                            viol.push((f.message, case_json(j, &c)));
                            return;
                        }
                    }
                }
            }
        }
    });
    rep.exhaustive.push(format!("d * 10^e, d = 1..99, every e of the type, both signs, trim_floats off/on, for {} decimal core formats x float types", ej.len()));
    // formats with zero accepted round trips would show up as violations; list the group counts
    let _ = pool();
}

pub fn replay(_ctx: &Ctx, case: &Value) -> CaseResult {
    let mut l = Local::new();
    let fmt = case["format"].as_str().unwrap_or("STANDARD");
    let entry = cat().idx(fmt).ok_or_else(|| Fail::new(format!("format {fmt} not compiled in this configuration")))?;
    let ty = Ty::from_name(case["type"].as_str().unwrap_or("f64"));
    let value = u128::from_str_radix(case["value"].as_str().unwrap_or("0x0").trim_start_matches("0x"), 16).unwrap_or(0);
    check(&Job { entry, ty }, &Case { value, opts: WOpts::from_json(&case["options"]), long_infinity: case["long_infinity"].as_bool().unwrap_or(false) }, &mut l)
}
