//! C06 — power-of-two radix float output is exact and round-trips.
//! C07 — generic-radix float output is well-formed, near-exact, and exact for integers.

use crate::c05::{exp_char_for, float_call, kind_of};
use crate::cat::cat;
use crate::lex::*;
use catalogue::FLOAT_NAMES;
use proptest::prelude::*;
use serde_json::{json, Value};
use std::cmp::Ordering;
use std::num::NonZeroI32;
use vcore::big::Big;
use vcore::flt::*;
use vcore::gen;
use vcore::numtext::*;
use vcore::report::*;

#[derive(Clone, Debug)]
pub struct Job {
    pub entry: usize,
    pub ty: usize,
}

#[derive(Clone, Debug)]
pub struct Case {
    pub bits: u64,
    /// 0 = default breaks, 1 = force positional (breaks +-2000), 2 = force exponent notation (breaks +-1),
    /// 3 / 4 = the library's `from_radix` option presets (write and parse) with default breaks / breaks +-1
    pub notation: u8,
    pub trim: bool,
    /// generic radices only: max_significant_digits (0 = unset). With a digit limit only the
    /// well-formedness and acceptance clauses are judged (the rounded value is C14's business).
    pub digits: u8,
    /// generic radices only: min_significant_digits (0 = unset); padding never changes the value, so every
    /// clause is judged
    pub min_digits: u8,
}

pub fn case_json(j: &Job, c: &Case) -> Value {
    json!({"format": cat().entries[j.entry].name, "type": FLOAT_NAMES[j.ty], "bits": format!("{:#x}", c.bits), "notation": c.notation, "trim": c.trim, "digits": c.digits, "min_digits": c.min_digits})
}

/// the library's own option presets for a radix apply to plain-radix formats only
fn preset(m: &vcore::fmodel::FormatModel, c: &Case) -> bool {
    c.notation >= 3 && cfg!(feature = "power-of-two") && m.mantissa_radix() == m.exponent_base() && m.mantissa_radix() == m.exponent_radix()
}

pub fn write_opts(m: &vcore::fmodel::FormatModel, c: &Case) -> lexical_core::WriteFloatOptions {
    let mut b = lexical_core::WriteFloatOptions::builder().exponent(exp_char_for(m));
    #[cfg(feature = "power-of-two")]
    if preset(m, c) {
        // notation 3 / 4: WriteFloatOptions::from_radix, the library's choice of exponent character
        b = lexical_core::WriteFloatOptions::from_radix(m.mantissa_radix() as u8).rebuild();
    }
    b = b.trim_floats(c.trim);
    if c.digits > 0 {
        b = b.max_significant_digits(std::num::NonZeroUsize::new(c.digits as usize));
    }
    if c.min_digits > 0 && (c.digits == 0 || c.min_digits <= c.digits) {
        b = b.min_significant_digits(std::num::NonZeroUsize::new(c.min_digits as usize));
    }
    match c.notation {
        1 => {
            b = b.positive_exponent_break(NonZeroI32::new(2000)).negative_exponent_break(NonZeroI32::new(-2000));
        },
        2 | 4 => {
            b = b.positive_exponent_break(NonZeroI32::new(1)).negative_exponent_break(NonZeroI32::new(-1));
        },
        _ => {},
    }
    b.build_unchecked()
}

/// parse options matching `write_opts`
pub fn parse_opts(m: &vcore::fmodel::FormatModel, c: &Case, ec: u8) -> lexical_core::ParseFloatOptions {
    #[cfg(feature = "power-of-two")]
    if preset(m, c) {
        return lexical_core::ParseFloatOptions::from_radix(m.mantissa_radix() as u8);
    }
    let _ = (m, c);
    lexical_core::ParseFloatOptions::builder().exponent(ec).build_unchecked()
}

const NOTATION_NAMES: [&str; 5] = ["default", "positional", "exponent", "from_radix presets", "from_radix presets + exponent"];

/// Write through the catalogue entry into a buffer of exactly the documented size.
pub fn do_write(entry: usize, ty: usize, bits: u64, opts: &lexical_core::WriteFloatOptions) -> Result<Vec<u8>, String> {
    let e = &cat().entries[entry];
    let (wf, bs) = e.wf[ty].ok_or_else(|| "no writer compiled".to_string())?;
    let size = guard(|| bs(opts))?;
    let mut buf = vec![0xA5u8; size + 16];
    let (off, len) = guard(|| wf(bits, &mut buf[..size], opts))?;
    if off != 0 {
        return Err(format!("returned slice starts at offset {off}"));
    }
    if len > size {
        return Err(format!("returned length {len} exceeds buffer_size {size}"));
    }
    if buf[size..].iter().any(|&b| b != 0xA5) {
        return Err("wrote past the buffer_size bound".into());
    }
    Ok(buf[..len].to_vec())
}

fn bits_strategy(k: FloatKind, radix: u32) -> BoxedStrategy<u64> {
    // r^k neighbourhoods and small integers in addition to the structured patterns
    let r = radix as f64;
    let pow_edges = (0i32..140, -1i64..=1, any::<bool>()).prop_map(move |(e, d, neg)| {
        let e = if neg { -e } else { e };
        let v = r.powi(e);
        let b = if k.p == 53 { v.to_bits() } else { (v as f32).to_bits() as u64 };
        let b = (b as i64).wrapping_add(d).max(1) as u64;
        b.min(k.max_finite_bits())
    });
    let ints = prop_oneof![
        (0u64..4096),
        any::<u64>().prop_map(move |x| x % (1u64 << k.p)),
        (0u32..k.p).prop_map(|b| (1u64 << b) - 1),
        (0u32..40, -1i64..=1).prop_map(move |(e, d)| {
            let mut v: u64 = 1;
            for _ in 0..e {
                v = v.saturating_mul(radix as u64);
            }
            ((v as i64).wrapping_add(d).max(0) as u64) % (1u64 << k.p)
        }),
    ]
    .prop_map(move |i| if k.p == 53 { (i as f64).to_bits() } else { (i as f32).to_bits() as u64 });
    prop_oneof![6 => gen::finite_mag(k), 2 => pow_edges, 2 => ints].boxed()
}

fn case_strategy(k: FloatKind, radix: u32, with_digits: bool) -> BoxedStrategy<Case> {
    let digits = if with_digits { prop_oneof![3 => Just(0u8), 1 => 1u8..=6, 1 => 7u8..=40].boxed() } else { Just(0u8).boxed() };
    let min_digits = if with_digits { prop_oneof![4 => Just(0u8), 1 => 1u8..=8, 1 => 9u8..=60].boxed() } else { Just(0u8).boxed() };
    (bits_strategy(k, radix), prop_oneof![3 => 0u8..3, 1 => 3u8..5], prop_oneof![3 => Just(false), 1 => Just(true)], any::<bool>(), digits, min_digits)
        .prop_map(move |(mag, notation, trim, neg, digits, min_digits)| Case { bits: if neg { mag | k.sign_mask() } else { mag }, notation, trim, digits, min_digits })
        .boxed()
}

/// exact comparison helpers: value of output vs m * 2^q
fn exact_of_output(out: &[u8], rx: Radices, ec: u8) -> Option<(NumParts, ReadInfo)> {
    read_number(out, rx, b'.', ec, false)
}

pub fn check_pow2(j: &Job, c: &Case, l: &mut Local) -> CaseResult {
    let e = &cat().entries[j.entry];
    let m = &cat().models[j.entry];
    let k = kind_of(j.ty);
    let rx = m.radices();
    let opts = write_opts(m, c);
    let ec = opts.exponent();
    l.eval(1);
    let mag = k.abs(c.bits);
    let desc = |what: String| Fail::new(format!("{} {} [{}] write(bits {:#x}, notation {}, trim {}): {}", FLOAT_NAMES[j.ty], e.name, m.describe(), c.bits, NOTATION_NAMES[(c.notation as usize).min(4)], c.trim, what));
    let out = match do_write(j.entry, j.ty, c.bits, &opts) {
        Ok(o) => o,
        Err(p) => return Err(desc(format!("failed: {p}"))),
    };
    let (parts, info) = match exact_of_output(&out, rx, ec) {
        Some(x) => x,
        None => return Err(desc(format!("output {:?} is not of the form [-]digits[.digits][exp[-]digits]", show(&out)))),
    };
    if mag != 0 {
        let (mm, q) = k.decode(mag);
        // residue classes for evidence: exponent mod bits-per-digit
        let bpd = rx.mant.trailing_zeros() as i64;
        l.nontrivial_hash(splitmix(c.bits ^ ((j.entry as u64) << 50) ^ ((c.notation as u64) << 60) ^ ((c.trim as u64) << 63) ^ ((c.min_digits as u64) << 32)));
        l.class(&format!("radix{}/{}:exp-mod-{}={}:{}{}", rx.mant, rx.base, bpd, q.rem_euclid(bpd), if info.has_exp { "exponent-notation" } else { "positional" }, if k.is_subnormal_or_zero(mag) { ":subnormal" } else { "" }));
        if l.want_sample() {
            l.sample(json!({"case": case_json(j, c), "output": show(&out)}));
        }
        if parts.neg != k.is_negative(c.bits) {
            return Err(desc(format!("output {:?} has the wrong sign", show(&out))));
        }
        match exact_value(&parts, rx) {
            Exact::Val(v) => {
                if v.cmp_m_q(mm as u128, q) != Ordering::Equal {
                    return Err(desc(format!("output {:?} does not denote the float exactly (a digit was rounded or dropped)", show(&out))));
                }
            },
            _ => return Err(desc(format!("output {:?} denotes zero or an out-of-range value", show(&out)))),
        }
    } else {
        l.class("zero");
    }
    // re-parse in the same format
    if let Some((pf, _)) = e.pf[j.ty] {
        let po = parse_opts(m, c, ec);
        let back = float_call(pf, &out, &po, k);
        if back != POut::Ok(c.bits as u128, out.len()) {
            return Err(desc(format!("output {:?} parses back to {} in the same format", show(&out), back.show())));
        }
    }
    Ok(())
}

pub fn check_generic(j: &Job, c: &Case, l: &mut Local) -> CaseResult {
    let e = &cat().entries[j.entry];
    let m = &cat().models[j.entry];
    let k = kind_of(j.ty);
    let rx = m.radices();
    let opts = write_opts(m, c);
    let ec = opts.exponent();
    l.eval(1);
    let mag = k.abs(c.bits);
    let desc = |what: String| Fail::new(format!("{} {} [{}] write(bits {:#x} ~ {:e}, notation {}, trim {}): {}", FLOAT_NAMES[j.ty], e.name, m.describe(), c.bits, if k.p == 53 { f64::from_bits(c.bits) } else { f32::from_bits(c.bits as u32) as f64 }, NOTATION_NAMES[(c.notation as usize).min(4)], c.trim, if c.digits > 0 || c.min_digits > 0 { format!("[max_significant_digits {}, min_significant_digits {}] {what}", c.digits, c.min_digits) } else { what }));
    let out = match do_write(j.entry, j.ty, c.bits, &opts) {
        Ok(o) => o,
        Err(p) => return Err(desc(format!("failed: {p}"))),
    };
    // (1) only digits valid for the radix, at most one point and one exponent
    let (parts, _info) = match exact_of_output(&out, rx, ec) {
        Some(x) => x,
        None => return Err(desc(format!("output {:?} is not of the form [-]digits[.digits][exp[-]digits] with digits of radix {}", show(&out), rx.mant))),
    };
    if out.iter().any(|b| b.is_ascii_lowercase() && *b != ec) {
        return Err(desc(format!("output {:?} contains lower-case digits", show(&out))));
    }
    // (2) accepted by the parser of the same format
    if let Some((pf, _)) = e.pf[j.ty] {
        let po = parse_opts(m, c, ec);
        let back = float_call(pf, &out, &po, k);
        if !back.is_ok() {
            return Err(desc(format!("output {:?} is rejected by the parser of the same format: {}", show(&out), back.show())));
        }
    }
    if mag == 0 {
        l.class("zero");
        return Ok(());
    }
    if parts.neg != k.is_negative(c.bits) {
        return Err(desc(format!("output {:?} has the wrong sign", show(&out))));
    }
    if c.digits > 0 {
        // digit limit set: well-formed, accepted, right sign (value after rounding: C14)
        l.class("with-max-significant-digits");
        l.nontrivial_hash(splitmix(c.bits ^ ((j.entry as u64) << 50) ^ ((c.notation as u64) << 60) ^ ((c.digits as u64) << 40)));
        return Ok(());
    }
    let (mm, q) = k.decode(mag);
    let v = match exact_value(&parts, rx) {
        Exact::Val(v) => v,
        // an output of zero digits is judged by the same error bound (tiny subnormals)
        Exact::Zero => Rat::new(Big::zero(), Big::from_u64(1)),
        _ => return Err(desc(format!("output {:?} denotes an out-of-range value", show(&out)))),
    };
    // (3) |value - v| < N ulp, ulp = 2^q : |num - mm*2^q*den| < N*2^q*den
    let n_ulp: u64 = if k.p == 53 { 2048 } else { 256 };
    let (num, den) = (v.num.clone(), v.den.clone());
    let (lhs_a, lhs_b, ulp) = if q >= 0 {
        (num, Big::from_u64(mm).shl(q as u64).mul(&den), den.shl(q as u64))
    } else {
        (num.shl((-q) as u64), Big::from_u64(mm).mul(&den), den)
    };
    let diff = lhs_a.abs_diff(&lhs_b);
    let bound = ulp.mul_small_new(n_ulp);
    // observed error class (in ulps) for the evidence histogram
    let class = if diff.is_zero() {
        "error:0"
    } else if diff < ulp {
        "error:<1ulp"
    } else if diff < ulp.mul_small_new(16) {
        "error:1-15ulp"
    } else if diff < ulp.mul_small_new(256) {
        "error:16-255ulp"
    } else {
        "error:>=256ulp"
    };
    l.class(class);
    let single_digit_int = q <= 0 && -q < 64 && mm & ((1u64 << (-q)) - 1) == 0 && (mm >> (-q)) < rx.mant as u64;
    if !single_digit_int {
        l.nontrivial_hash(splitmix(c.bits ^ ((j.entry as u64) << 50) ^ ((c.notation as u64) << 60) ^ ((c.trim as u64) << 63)));
        if l.want_sample() {
            l.sample(json!({"case": case_json(j, c), "output": show(&out)}));
        }
    }
    if diff >= bound {
        let f = desc(format!("output {:?} is {} ulps or more away from the float", show(&out), n_ulp));
        // known finding: positional output keeps at most ~231 characters, so values with more
        // leading fractional zeros than that lose every significant digit
        let positional = !out.contains(&ec);
        let tiny = {
            // value * r^200 < 1  <=>  mm * 2^q * r^200 < 1 (more than 200 leading fractional zeros)
            let scaled = Big::from_u64(mm).mul(&Big::pow(rx.mant as u64, 200));
            q < 0 && scaled.bit_len() <= (-q) as u64
        };
        if positional && tiny {
            return Err(Fail::known(f.message, "c07_positional_output_truncated_at_buffer_size"));
        }
        return Err(f);
    }
    // (4) integers below 2^p are written exactly
    let is_int = q >= 0 || (-q < 64 && mm & ((1u64 << (-q)) - 1) == 0);
    let below = q <= 0; // mm < 2^p always; with q <= 0 the value is < 2^p
    if is_int && below && !diff.is_zero() {
        return Err(desc(format!("output {:?}: the float is an integer below 2^{} but is not written exactly", show(&out), k.p)));
    }
    if is_int && below {
        l.class("integer-below-2^p");
    }
    Ok(())
}

pub fn jobs(pow2: bool) -> Vec<Job> {
    let c = cat();
    let mut v = Vec::new();
    for g in ["core", "write"] {
        for i in c.group(g) {
            let e = &c.entries[i];
            let m = &c.models[i];
            if !e.is_valid || !m.float_radix_pair_ok() {
                continue;
            }
            let r = m.mantissa_radix();
            let is_pow2 = matches!(r, 2 | 4 | 8 | 16 | 32);
            if r == 10 || is_pow2 != pow2 {
                continue;
            }
            // notation-forcing format flags interfere with the notation option sweep of C06/C07
            if g == "write" && (m.no_exponent_notation || m.required_exponent_notation) && false {
                continue;
            }
            for ty in 0..2 {
                if e.wf[ty].is_some() {
                    v.push(Job { entry: i, ty });
                }
            }
        }
    }
    v
}

pub fn run_c06(ctx: &Ctx, rep: &mut Report) {
    rep.rule = "cases: per compiled power-of-two format (radix 2,4,8,16,32; the mixed pairs 4/2, 8/2, 16/2, 32/2, 16/4 with exponent \
        digits in radix 10 or the mantissa radix; sign/notation flag variants) and float type: finite bit patterns (structured \
        generators, r^k neighbourhoods, integers) x {default breaks, breaks +-2000 forcing positional, breaks +-1 forcing exponent \
        notation} x trim_floats. Oracle: the bytes are read with an independent strict reader; the written rational must equal \
        m*2^q exactly; re-parsing in the same format returns the identical bits. thorough adds every binade x mantissa patterns. \
        non-trivial = finite non-zero; distinct = distinct (format, type, bits, options)."
        .into();
    let js = jobs(true);
    if js.is_empty() {
        rep.notes.push("no power-of-two radix writers in this configuration".into());
        return;
    }
    let per = ctx.n((2_000_000 / js.len() as u64).max(2000), 400_000);
    run_prop_jobs(rep, ctx, "pow2:generated", &js, per, |j| case_strategy(kind_of(j.ty), cat().models[j.entry].mantissa_radix(), false), case_json, check_pow2);
    // every binade x a few mantissa patterns x both forced notations
    let per_binade: u64 = ctx.n(3, 200);
    run_enum(rep, ctx, "pow2:binade-sweep", js.len(), |ji, l, viol| {
        let j = &js[ji];
        let k = kind_of(j.ty);
        let mb = k.p - 1;
        for e in 0..k.max_exp_field() {
            let mut h = mix(ctx.seed, &["c06", &ji.to_string(), &e.to_string()]);
            let mut mants = vec![0u64, 1, k.mant_mask(), 1u64 << (mb - 1)];
            for _ in 0..per_binade {
                h = splitmix(h);
                let tz = (h % mb as u64) as u32;
                mants.push(((h >> 8) & k.mant_mask()) >> tz << tz);
            }
            for mant in mants {
                for notation in [1u8, 2] {
                    let c = Case { bits: (e << mb) | mant, notation, trim: false, digits: 0, min_digits: 0 };
                    if let Err(f) = check_pow2(j, &c, l) {
                        if filter_known(ctx, l, &f) {
                            viol.push((f.message, case_json(j, &c)));
                            return;
                        }
                    }
                }
            }
        }
    });
}

pub fn run_c07(ctx: &Ctx, rep: &mut Report) {
    rep.rule = "cases: per compiled generic radix format (3,5,6,7,9,11..15,17..31,33..36 incl. exponent-digit-radix and flag \
        variants) and float type: finite bit patterns (structured generators, r^k-ulp / r^k / r^k+ulp for every k in range, \
        integers below 2^53 / 2^24 incl. r^k+-1 and all-ones, small integers) x {default breaks, forced positional, forced \
        exponent notation} x trim_floats. Oracle: strict reader (only digits of the radix, one point, one exponent, upper \
        case); accepted by the parser of the same format; exact |value - float| < 2048 ulp (f64) / 256 ulp (f32) by big-integer \
        cross-multiplication; integers below 2^p exact. The histogram of observed ulp errors is reported. non-trivial = finite, \
        non-zero, not a single-digit integer; distinct = distinct (format, type, bits, options)."
        .into();
    let js = jobs(false);
    if js.is_empty() {
        rep.notes.push("no generic radix writers in this configuration".into());
        return;
    }
    let per = ctx.n((2_000_000 / js.len() as u64).max(2000), 400_000);
    run_prop_jobs(rep, ctx, "generic:generated", &js, per, |j| case_strategy(kind_of(j.ty), cat().models[j.entry].mantissa_radix(), true), case_json, check_generic);
}

fn replay_common(case: &Value, pow2: bool) -> CaseResult {
    let mut l = Local::new();
    let fmt = case["format"].as_str().unwrap_or("R16");
    let entry = cat().idx(fmt).ok_or_else(|| Fail::new(format!("format {fmt} not compiled in this configuration")))?;
    let ty = if case["type"].as_str() == Some("f32") { 0 } else { 1 };
    let bits = u64::from_str_radix(case["bits"].as_str().unwrap_or("0x0").trim_start_matches("0x"), 16).unwrap_or(0);
    let c = Case { bits, notation: case["notation"].as_u64().unwrap_or(0) as u8, trim: case["trim"].as_bool().unwrap_or(false), digits: case["digits"].as_u64().unwrap_or(0) as u8, min_digits: case["min_digits"].as_u64().unwrap_or(0) as u8 };
    if pow2 {
        check_pow2(&Job { entry, ty }, &c, &mut l)
    } else {
        check_generic(&Job { entry, ty }, &c, &mut l)
    }
}
pub fn replay_c06(_ctx: &Ctx, case: &Value) -> CaseResult {
    replay_common(case, true)
}
pub fn replay_c07(_ctx: &Ctx, case: &Value) -> CaseResult {
    replay_common(case, false)
}
