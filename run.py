#!/usr/bin/env python3
"""Orchestration only: build configurations of the Rust harness against /repo's working tree,
run the per-property checks, merge their partial reports into /verif/evidence/<id>.json, write
replay files, print VIOLATION / KNOWN-FINDING lines and set the exit code.

  run.py setup                      build every configuration, run oracle self-tests
  run.py check <ID> [--tier quick|thorough]
  run.py replay <file>
  run.py build <config>[:profile] ...

Exit codes: 0 held on everything explored; 1 violation(s) (each with a VIOLATION line);
2 infrastructure problem (build failure, crash of the harness, watchdog) - never a violation.
"""
import concurrent.futures
import hashlib
import shutil
import json
import os
import subprocess
import sys
import time

VERIF = os.path.dirname(os.path.abspath(__file__))
HARNESS = os.path.join(VERIF, "harness")
BUILD = os.path.join(VERIF, ".build")
EVIDENCE = os.path.join(VERIF, "evidence")
REPLAYS = os.path.join(VERIF, "replays")
CORPUS = os.path.join(VERIF, "corpus")

CONFIGS = {
    "default": ["std"],
    "nostd": [],
    "compact": ["std", "compact"],
    "pow2": ["std", "power-of-two"],
    "radix": ["std", "radix"],
    "format": ["std", "format"],
    "compact+format": ["std", "compact", "format"],
    "pow2+format": ["std", "power-of-two", "format"],
    "radix+format": ["std", "radix", "format"],
    "compact+pow2": ["std", "compact", "power-of-two"],
    "compact+radix": ["std", "compact", "radix"],
    "compact+radix+format": ["std", "compact", "radix", "format"],
    "compact+pow2+format": ["std", "compact", "power-of-two", "format"],
    # the rest of the 24-member lattice: the same eleven without `std` (C16 thorough)
    "compact+nostd": ["compact"],
    "pow2+nostd": ["power-of-two"],
    "radix+nostd": ["radix"],
    "format+nostd": ["format"],
    "compact+format+nostd": ["compact", "format"],
    "pow2+format+nostd": ["power-of-two", "format"],
    "radix+format+nostd": ["radix", "format"],
    "compact+pow2+nostd": ["compact", "power-of-two"],
    "compact+radix+nostd": ["compact", "radix"],
    "compact+pow2+format+nostd": ["compact", "power-of-two", "format"],
    "compact+radix+format+nostd": ["compact", "radix", "format"],
}

# property -> (quick configs, extra thorough configs); "cfg:checked" selects the checked profile
PLAN = {
    "C01": (["default", "compact", "radix+format", "compact+radix+format", "pow2", "compact+nostd"], ["format", "radix", "compact+radix", "nostd", "compact+pow2"]),
    "C02": (["default", "compact", "radix+format", "radix+format:checked", "compact:checked"], ["pow2", "format", "radix", "compact+radix+format", "nostd"]),
    "C03": (["default", "compact", "pow2", "radix", "compact+radix", "radix+format", "radix+format:checked"], ["compact+radix+format", "nostd"]),
    "C05": (["pow2", "radix", "compact+radix", "radix+format"], ["compact+radix+format", "compact+pow2", "pow2+format", "radix+nostd", "compact+radix+nostd"]),
    "C06": (["pow2", "pow2:checked", "radix", "compact+radix", "radix+format"], ["compact+pow2", "pow2+format", "compact+radix+format", "radix+nostd"]),
    "C07": (["radix", "compact+radix", "radix+format", "radix+format:checked", "radix+nostd"], ["compact+radix+format", "compact+radix+nostd"]),
    "C08": (["default", "compact", "radix", "format", "radix+format"], ["pow2", "compact+radix+format", "pow2+format"]),
    "C09": (["default", "compact", "compact:checked", "pow2", "pow2:checked", "format", "radix+format", "radix+format:checked"], ["compact+radix+format", "default:checked", "radix", "compact+radix+format:checked", "compact+format", "radix+nostd:checked"]),
    "C10": (["default", "default:checked", "pow2:checked", "radix+format", "radix+format:checked", "compact+radix+format"], ["compact", "compact:checked", "format", "compact+radix+format:checked", "radix", "pow2+format"]),
    "C11": (["default", "compact", "radix+format", "compact+radix+format"], ["format", "radix", "pow2+format"]),
    "C12": (["format", "radix+format", "compact+radix+format"], ["pow2+format", "compact+format"]),
    "C13": (["radix+format", "radix+format:checked", "format", "compact+radix+format"], ["pow2+format", "compact+format"]),
    "C14": (["default", "compact", "compact:checked", "radix+format", "radix+format:checked"], ["pow2", "radix", "compact+radix+format", "format"]),
    "C15": (["default", "format", "radix+format", "radix+format:checked", "compact+radix+format"], ["compact", "radix", "pow2+format"]),
    "C16": (["default", "nostd", "compact", "compact+nostd", "pow2", "radix", "format", "radix+format", "compact+radix+format"], ["compact+format", "pow2+format", "compact+pow2", "compact+radix", "compact+pow2+format", "pow2+nostd", "radix+nostd", "format+nostd", "compact+format+nostd", "pow2+format+nostd", "radix+format+nostd", "compact+pow2+nostd", "compact+radix+nostd", "compact+pow2+format+nostd", "compact+radix+format+nostd"]),
    "C17": (["default", "radix+format", "compact+radix+format"], ["compact", "pow2", "format", "radix", "nostd"]),
    "C18": (["default", "pow2", "radix", "format", "radix+format"], ["compact+radix+format", "pow2+format", "nostd"]),
    "C19": (["default", "compact", "radix", "compact+radix+format"], ["pow2", "format", "compact+radix", "radix+format"]),
    "C04": (["default", "compact", "pow2", "radix", "radix+format"], ["compact+radix", "compact+radix+format", "format"]),
}

ENV = dict(os.environ)
ENV["CARGO_NET_OFFLINE"] = "true"
ENV.setdefault("VERIF_DIR", VERIF)


def log(*a):
    print(*a, file=sys.stderr, flush=True)


def split_cfg(spec):
    if ":" in spec:
        c, p = spec.split(":", 1)
    else:
        c, p = spec, "release"
    return c, p


def target_dir(cfg, profile):
    return os.path.join(BUILD, "t", cfg.replace("+", "_") + ("" if profile == "release" else "_" + profile))


def binary(cfg, profile):
    return os.path.join(target_dir(cfg, profile), profile, "checks")


def build(spec, jobs=None):
    cfg, profile = split_cfg(spec)
    feats = CONFIGS[cfg]
    cmd = ["cargo", "build", "--profile", profile, "-p", "checks", "--no-default-features", "--offline"]
    if feats:
        cmd += ["--features", ",".join(feats)]
    if jobs:
        cmd += ["-j", str(jobs)]
    env = dict(ENV)
    env["CARGO_TARGET_DIR"] = target_dir(cfg, profile)
    env["RUSTFLAGS"] = env.get("RUSTFLAGS", "") + " -Awarnings"
    t0 = time.time()
    r = subprocess.run(cmd, cwd=HARNESS, env=env, stdout=subprocess.PIPE, stderr=subprocess.STDOUT, text=True)
    dt = time.time() - t0
    if r.returncode != 0:
        log(f"BUILD FAILED for {spec} ({dt:.0f}s):\n" + r.stdout[-6000:])
        return False
    if dt > 2:
        log(f"built {spec} in {dt:.0f}s")
    # sanity: the binary reports the configuration it was built with
    info = subprocess.run([binary(cfg, profile), "info"], stdout=subprocess.PIPE, text=True, env=ENV)
    try:
        got = json.loads(info.stdout)
    except Exception:
        log(f"cannot query {binary(cfg, profile)}")
        return False
    if got["config"] != cfg or got["profile"] != profile:
        log(f"binary for {spec} reports {got}")
        return False
    return True


def build_many(specs):
    specs = list(dict.fromkeys(specs))
    if len(specs) == 1:
        return build(specs[0])
    # build up to 4 configurations at once, 4-8 rustc jobs each
    ok = True
    with concurrent.futures.ThreadPoolExecutor(max_workers=4) as ex:
        for spec, res in zip(specs, ex.map(lambda s: build(s, jobs=6), specs)):
            ok = ok and res
    return ok


def load_known():
    p = os.path.join(VERIF, "known_findings.json")
    if not os.path.exists(p):
        return {"findings": []}
    return json.load(open(p))


def write_replay(prop, cfg, profile, viol):
    os.makedirs(os.path.join(REPLAYS, prop), exist_ok=True)
    body = {
        "property": prop,
        "subcheck": viol.get("subcheck"),
        "config": cfg,
        "profile": profile,
        "message": viol.get("message"),
        "case": viol.get("case"),
    }
    h = hashlib.sha1(json.dumps([body["subcheck"], cfg, body["case"]], sort_keys=True).encode()).hexdigest()[:12]
    path = os.path.join(REPLAYS, prop, f"{prop}-{cfg.replace('+', '_')}-{h}.json")
    with open(path, "w") as f:
        json.dump(body, f, indent=1)
    return path


def run_replay_c16(path, v):
    cfgs = v.get("case", {}).get("configs") or []
    if len(cfgs) != 2:
        return None
    outs = []
    for cfg in cfgs:
        if cfg not in CONFIGS or not build(cfg):
            return "infra", f"cannot build {cfg}"
        r = subprocess.run([binary(cfg, "release"), "replay", path], stdout=subprocess.PIPE, stderr=subprocess.STDOUT, text=True, env=ENV, timeout=600)
        res = [l for l in r.stdout.splitlines() if l.startswith("C16-RESULT")]
        outs.append(res[0] if res else f"(exit {r.returncode})")
    if outs[0] == outs[1]:
        return "pass", f"REPLAY-PASS property=C16 file={path}: both builds give {outs[0]}\n"
    return "fail", f"REPLAY-FAIL property=C16 file={path}: {cfgs[0]}: {outs[0]} | {cfgs[1]}: {outs[1]}\nVIOLATION property=C16 replay={path}\n"


def run_replay_file(path, strict=True):
    """returns (status, output) with status in pass|fail|infra"""
    v = json.load(open(path))
    if v.get("property") == "C16":
        r = run_replay_c16(path, v)
        if r is not None:
            return r
    if v.get("case", {}).get("kind") == "fuzz-artifact":
        return run_replay_fuzz(path, v)
    if v.get("case", {}).get("kind") == "miri-corpus":
        return run_replay_miri(path, v)
    cfg = v.get("config") or "default"
    profile = v.get("profile") or "release"
    if cfg not in CONFIGS:
        return "infra", f"unknown config {cfg}"
    if not build(f"{cfg}:{profile}"):
        return "infra", "build failed"
    env = dict(ENV)
    if strict:
        env["VERIF_STRICT"] = "1"
    hang = bool(v.get("case", {}).get("hang"))
    try:
        r = subprocess.run([binary(cfg, profile), "replay", path], stdout=subprocess.PIPE, stderr=subprocess.STDOUT, text=True, env=env, timeout=120 if hang else 600)
    except subprocess.TimeoutExpired:
        if hang:
            # the recorded violation is "this single call does not return"
            return "fail", f"REPLAY-FAIL property={v.get('property')} file={path}: the call did not return within 120 s\nVIOLATION property={v.get('property')} replay={path}\n"
        return "infra", "replay timed out"
    if r.returncode == 0:
        return "pass", r.stdout
    if r.returncode == 1:
        return "fail", r.stdout
    if r.returncode < 0:
        # the replayed call killed the process (guard-page fault, abort): the violation reproduces
        return "fail", r.stdout + f"\nreplay process killed by signal {-r.returncode}\nVIOLATION property={v.get('property')} replay={path}\n"
    return "infra", r.stdout


FUZZ = {
    # property -> campaigns (cargo-fuzz target, cargo features of the fuzz crate, max_len, runs per process, processes)
    "C01": [("fz_c01", "", 256, 1_500_000, 6), ("fz_c01", "compact", 256, 1_500_000, 6)],
    "C02": [("fz_c02", "", 16, 4_000_000, 6), ("fz_c02", "compact", 16, 4_000_000, 6)],
    "C04": [("fz_c04", "", 64, 3_000_000, 8), ("fz_c04", "radix", 64, 1_500_000, 8)],
    "C05": [("fz_c05", "radix", 1400, 300_000, 12)],
    "C06": [("fz_c06", "power-of-two", 16, 1_500_000, 8)],
    "C07": [("fz_c06", "radix", 16, 1_000_000, 10)],
    "C08": [("fz_c08", "radix,format", 64, 400_000, 12)],
    "C09": [("fz_c09", "", 64, 1_500_000, 6), ("fz_c09", "radix,format", 64, 400_000, 10)],
    "C10": [("fz_c10", "", 512, 1_500_000, 6), ("fz_c10", "radix,format", 512, 250_000, 10)],
    "C11": [("fz_c10", "", 512, 1_500_000, 6), ("fz_c10", "radix,format", 512, 250_000, 10)],
    "C12": [("fz_c12", "radix,format", 40, 600_000, 12)],
    "C13": [("fz_c12", "radix,format", 40, 600_000, 12)],
    "C14": [("fz_c14", "", 64, 1_500_000, 6), ("fz_c14", "radix,format", 64, 400_000, 10)],
    "C19": [("fz_c05", "radix", 1400, 300_000, 12)],
}


def fuzz_target_dir(features):
    return os.path.join(BUILD, "t", "fuzz_" + (features.replace(",", "_") or "default"))


def fuzz_build(target, features):
    cmd = ["cargo", "+nightly", "fuzz", "build", "--fuzz-dir", os.path.join(VERIF, "fuzz"), "--target-dir", fuzz_target_dir(features)]
    if features:
        cmd += ["--features", features]
    cmd.append(target)
    t0 = time.time()
    r = subprocess.run(cmd, cwd=HARNESS, env=ENV, stdout=subprocess.PIPE, stderr=subprocess.STDOUT, text=True)
    if r.returncode != 0:
        log(f"fuzz build failed ({target} [{features}]):\n{r.stdout[-3000:]}")
        return None
    log(f"built fuzz target {target} [{features or 'default'}] in {time.time() - t0:.0f}s")
    return os.path.join(fuzz_target_dir(features), "x86_64-unknown-linux-gnu", "release", target)


def fuzz_phase(prop, seed):
    """thorough tier only: libFuzzer (+ASan) campaigns whose targets carry the same oracles as the proptest
    checks; several independent processes per campaign, each from an empty corpus (plus committed seeds)
    and its own -seed. Returns (violations, stats list, infra)."""
    viols, stats_all, infra = [], [], False
    scale = float(os.environ.get("VERIF_SCALE", "1"))
    for target, features, max_len, runs, procs in FUZZ[prop]:
        exe = fuzz_build(target, features)
        if exe is None:
            infra = True
            continue
        runs = max(1000, int(runs * scale))
        work = os.path.join(BUILD, "fuzzwork", f"{target}-{features.replace(',', '_') or 'default'}-{os.getpid()}")
        shutil.rmtree(work, ignore_errors=True)
        ps = []
        t0 = time.time()
        for i in range(procs):
            corpus = os.path.join(work, f"corpus{i}")
            art = os.path.join(work, f"art{i}") + "/"
            os.makedirs(corpus)
            os.makedirs(art)
            seeds = os.path.join(CORPUS, "fuzz", target)
            if os.path.isdir(seeds):
                for n in os.listdir(seeds):
                    shutil.copy(os.path.join(seeds, n), corpus)
            env = dict(ENV)
            env["ASAN_OPTIONS"] = "detect_odr_violation=0:detect_leaks=0"
            cmd = [exe, corpus, f"-runs={runs}", f"-max_len={max_len}", "-len_control=0", f"-seed={(seed * 1000 + i * 7 + 1) % (2**31)}", f"-artifact_prefix={art}",
                   "-print_final_stats=1", "-detect_leaks=0", "-rss_limit_mb=6144", "-timeout=120"]
            # output goes to a file: with pipes the processes block on a full pipe until their turn to be read
            logf = open(os.path.join(work, f"log{i}.txt"), "w")
            ps.append((i, art, subprocess.Popen(cmd, cwd=work, env=env, stdout=logf, stderr=subprocess.STDOUT, text=True), logf))
        st = {"target": target, "features": features or "default", "processes": procs, "requested_runs_per_process": runs, "executed_units": 0, "max_cov": 0}
        for i, art, p, logf in ps:
            try:
                p.wait(timeout=6 * 3600)
            except subprocess.TimeoutExpired:
                p.kill()
                p.wait()
                st["timed_out"] = True
                infra = True
            logf.close()
            out = open(logf.name, errors="replace").read()
            for line in out.splitlines():
                if line.startswith("stat::number_of_executed_units:"):
                    st["executed_units"] += int(line.split(":")[-1])
                if " cov: " in line and "ft:" in line:
                    try:
                        st["max_cov"] = max(st["max_cov"], int(line.split(" cov: ")[1].split()[0]))
                    except Exception:
                        pass
            arts = [os.path.join(art, n) for n in sorted(os.listdir(art))]
            if p.returncode != 0 and arts:
                crash = [a for a in arts if os.path.basename(a).startswith("crash-")]
                if not crash:
                    # oom-/timeout-/slow-unit artifacts are resource reports, not violations
                    log(f"fuzz process {i} of {target} ended with {os.path.basename(arts[0])}: inconclusive")
                    infra = True
                    continue
                msg = next((l for l in out.splitlines() if "VIOLATION property=" in l), None)
                if msg is None:
                    msg = next((l for l in out.splitlines() if "ERROR: AddressSanitizer" in l or "panicked at" in l), "fuzz target crashed (see artifact)")
                mprop = prop
                if "VIOLATION property=" in msg:
                    mprop = msg.split("VIOLATION property=")[1].split()[0]
                data = open(crash[0], "rb").read()
                viols.append({"subcheck": f"fuzz:{target}[{features or 'default'}]", "message": msg[:1500], "property_hit": mprop,
                              "case": {"kind": "fuzz-artifact", "target": target, "features": features, "input_hex": data.hex()}})
            elif p.returncode != 0:
                log(f"fuzz process {i} of {target} failed without artifact:\n{out[-1500:]}")
                infra = True
        st["wall_s"] = round(time.time() - t0, 1)
        stats_all.append(st)
        shutil.rmtree(work, ignore_errors=True)
    return viols, stats_all, infra


MIRI = {
    # property -> (cargo features of /verif/miri, processes, cases per process)
    "C09": [("", 6, 500), ("compact", 4, 400), ("radix,format", 10, 500)],
    "C10": [("", 6, 500), ("compact", 4, 400), ("radix,format", 10, 500)],
}


def miri_run(features, seed, cases, under_miri):
    env = dict(ENV)
    tag = features.replace(",", "_") or "default"
    if under_miri:
        env["CARGO_TARGET_DIR"] = os.path.join(BUILD, "t", "miri_" + tag)
        # -Zmiri-deterministic-floats: Miri otherwise adds random rounding errors to float intrinsics whose precision Rust
        # leaves unspecified (powi/powf ...); the compact parser's fast path calls powi, so the native/Miri comparison of
        # parsed bits would differ by an ulp for reasons that have nothing to do with the library (DESIGN 21.8)
        env["MIRIFLAGS"] = "-Zmiri-disable-isolation -Zmiri-deterministic-floats"
        cmd = ["cargo", "+nightly", "miri", "run", "--offline", "-q"]
    else:
        env["CARGO_TARGET_DIR"] = os.path.join(BUILD, "t", "mirinative_" + tag)
        cmd = ["cargo", "run", "--offline", "-q"]
    env["RUSTFLAGS"] = env.get("RUSTFLAGS", "") + " -Awarnings"
    if features:
        cmd += ["--features", features]
    cmd += ["--", str(seed), str(cases)]
    try:
        r = subprocess.run(cmd, cwd=os.path.join(VERIF, "miri"), env=env, stdout=subprocess.PIPE, stderr=subprocess.PIPE, text=True, timeout=3 * 3600)
    except subprocess.TimeoutExpired:
        return None, "timeout", ""
    res = next((l for l in r.stdout.splitlines() if l.startswith("RESULT ")), None)
    return r.returncode, res, r.stderr


def miri_phase(prop, seed):
    """thorough tier of C09 / C10: the generated corpus of /verif/miri is executed natively and under Miri with
    the same seeds. Miri reporting undefined behaviour, a panic of a parser or of a writer given the documented
    buffer size (the corpus asserts both), or a native/Miri result difference is a violation."""
    viols, stats, infra = [], [], False
    scale = float(os.environ.get("VERIF_SCALE", "1"))
    for features, procs, cases in MIRI[prop]:
        cases = max(20, int(cases * scale))
        t0 = time.time()
        # build once (serially) so the parallel runs only execute
        for um in (False, True):
            rc, res, err = miri_run(features, 0, 1, um)
            if rc != 0 or res is None:
                log(f"miri corpus [{features or 'default'}] {'miri' if um else 'native'} build/run failed:\n{err[-2000:]}")
                infra = True
        if infra:
            continue
        seeds = [seed * 1000 + i for i in range(procs)]
        with concurrent.futures.ThreadPoolExecutor(max_workers=procs) as ex:
            nat = list(ex.map(lambda s: miri_run(features, s, cases, False), seeds))
            mir = list(ex.map(lambda s: miri_run(features, s, cases, True), seeds))
        st = {"features": features or "default", "processes": procs, "cases_per_process": cases, "parse_calls": 0, "write_calls": 0, "expected_short_buffer_panics": 0}
        for s, (nrc, nres, nerr), (mrc, mres, merr) in zip(seeds, nat, mir):
            case = {"kind": "miri-corpus", "features": features, "seed": s, "cases": cases}
            if nrc != 0 or nres is None:
                msg = next((l for l in nerr.splitlines() if "panicked at" in l or "assert" in l), nerr[-300:])
                viols.append({"subcheck": f"miri-corpus[{features or 'default'}]:native", "message": f"the generated corpus failed natively (seed {s}, {cases} cases): {msg[:800]}", "case": case})
                continue
            if mres == "timeout":
                infra = True
                continue
            if mrc != 0 or mres is None:
                ub = next((l for l in merr.splitlines() if "Undefined Behavior" in l or "error:" in l), merr[-300:])
                if "unsupported operation" in merr and "Undefined Behavior" not in merr:
                    log(f"miri: unsupported operation (inconclusive): {ub[:300]}")
                    infra = True
                    continue
                viols.append({"subcheck": f"miri-corpus[{features or 'default'}]:miri", "message": f"Miri stopped the generated corpus (seed {s}, {cases} cases): {ub[:1200]}", "case": case})
                continue
            if nres != mres:
                viols.append({"subcheck": f"miri-corpus[{features or 'default'}]:differential", "message": f"native and Miri executions of the same calls disagree (seed {s}): {nres} vs {mres}", "case": case})
                continue
            for kv in mres.split()[2:]:
                k, v = kv.split("=")
                if k == "parse":
                    st["parse_calls"] += int(v)
                elif k == "write":
                    st["write_calls"] += int(v)
                elif k == "panics":
                    st["expected_short_buffer_panics"] += int(v)
        st["wall_s"] = round(time.time() - t0, 1)
        stats.append(st)
    return viols, stats, infra


def run_replay_miri(path, v):
    case = v.get("case", {})
    f, s, n = case.get("features", ""), int(case.get("seed", 0)), int(case.get("cases", 100))
    nrc, nres, nerr = miri_run(f, s, n, False)
    mrc, mres, merr = miri_run(f, s, n, True)
    if nrc == 0 and mrc == 0 and nres is not None and nres == mres:
        return "pass", f"REPLAY-PASS property={v.get('property')} file={path}: {nres}\n"
    if mres == "timeout":
        return "infra", "miri replay timed out"
    return "fail", f"native: rc={nrc} {nres} {nerr[-300:]}\nmiri: rc={mrc} {mres} {merr[-600:]}\nVIOLATION property={v.get('property')} replay={path}\n"


def run_replay_fuzz(path, v):
    case = v.get("case", {})
    target = case.get("target")
    exe = fuzz_build(target, case.get("features", ""))
    if exe is None:
        return "infra", "fuzz build failed"
    tmp = os.path.join(BUILD, f"fuzz-replay-{os.getpid()}.bin")
    open(tmp, "wb").write(bytes.fromhex(case.get("input_hex", "")))
    env = dict(ENV)
    env["ASAN_OPTIONS"] = "detect_odr_violation=0:detect_leaks=0"
    r = subprocess.run([exe, tmp, "-runs=1", "-detect_leaks=0"], cwd=BUILD, env=env, stdout=subprocess.PIPE, stderr=subprocess.STDOUT, text=True, timeout=3600)
    os.unlink(tmp)
    if r.returncode == 0:
        return "pass", f"REPLAY-PASS property={v.get('property')} file={path}\n"
    return "fail", r.stdout[-1500:] + f"\nVIOLATION property={v.get('property')} replay={path}\n"


def c16_dump(cfg, chunk, seed, tier):
    env = dict(ENV)
    env["VERIF_SEED"] = str(seed)
    env["VERIF_TIER"] = tier
    r = subprocess.run([binary(cfg, "release"), "c16dump", str(chunk)], env=env, stdout=subprocess.PIPE, text=True)
    return [json.loads(l) for l in r.stdout.splitlines() if l.strip()]


def c16_compare(partials, seed, tier):
    """compare per-chunk hashes across builds; returns violations (cfg, profile, dict)"""
    out = []
    data = {cfg: p.get("extra", {}).get("c16_hashes") for cfg, profile, p in partials if profile == "release"}
    data = {k: v for k, v in data.items() if v}
    if len(data) < 2:
        return out
    for cls, compact_ok in (("parse", True), ("int_write", True), ("float_write", False)):
        cfgs = [c for c in data if compact_ok or "compact" not in c]
        if len(cfgs) < 2:
            continue
        ref = cfgs[0]
        for other in cfgs[1:]:
            a, b = data[ref][cls], data[other][cls]
            diff = [i for i in range(min(len(a), len(b))) if a[i] != b[i]]
            if not diff:
                continue
            k = diff[0]
            da, db = c16_dump(ref, k, seed, tier), c16_dump(other, k, seed, tier)
            first = next((i for i in range(min(len(da), len(db))) if da[i]["result"] != db[i]["result"]), None)
            if first is None:
                continue
            case = dict(da[first]["item"])
            case["configs"] = [ref, other]
            case["results"] = {ref: da[first]["result"], other: db[first]["result"]}
            out.append((ref, "release", {"subcheck": f"cross-config:{cls}", "message": f"default API result differs between builds {ref} and {other} ({len(diff)} of {len(a)} chunks differ; first differing case of chunk {k}): {da[first]['item']} -> {ref}: {da[first]['result'][:200]} | {other}: {db[first]['result'][:200]}", "case": case}))
    return out


def check(prop, tier):
    t0 = time.time()
    seed = int(os.environ.get("VERIF_SEED", "0") or 0)
    if prop not in PLAN:
        log(f"no plan for {prop}")
        return 2
    quick_cfgs, extra = PLAN[prop]
    specs = list(quick_cfgs) + (list(extra) if tier == "thorough" else [])
    only = os.environ.get("VERIF_CONFIGS")
    if only:
        specs = [s for s in only.split(",") if s]
    if not build_many(specs):
        return 2
    os.makedirs(os.path.join(BUILD, "partial"), exist_ok=True)
    os.makedirs(EVIDENCE, exist_ok=True)
    partials = []
    infra = False
    for spec in specs:
        cfg, profile = split_cfg(spec)
        out = os.path.join(BUILD, "partial", f"{prop}.{cfg.replace('+', '_')}.{profile}.{os.getpid()}.json")
        env = dict(ENV)
        env["VERIF_TIER"] = tier
        env["VERIF_SEED"] = str(seed)
        try:
            r = subprocess.run([binary(cfg, profile), "run", prop, "--out", out], env=env, stdout=subprocess.PIPE, stderr=subprocess.PIPE, text=True, timeout=6 * 3600)
        except subprocess.TimeoutExpired:
            log(f"{prop} {spec}: timed out")
            infra = True
            continue
        sys.stderr.write(r.stderr[-3000:])
        if r.returncode == 3 and os.path.exists(out):
            log(f"{prop} {spec}: harness reported an infrastructure problem (watchdog / worker failure)")
            infra = True
        elif r.returncode != 0 or not os.path.exists(out):
            log(f"{prop} {spec}: harness exited with {r.returncode}\n{r.stdout[-2000:]}")
            infra = True
            continue
        partials.append((cfg, profile, json.load(open(out))))
        os.unlink(out)
    # merge
    evaluations = sum(p["evaluations"] for _, _, p in partials)
    distinct = sum(p["distinct_nontrivial"] for _, _, p in partials)
    samples = []
    per_config = {}
    excluded = {}
    exhaustive = []
    notes = []
    assumptions = []
    rule = ""
    violations = []
    for cfg, profile, p in partials:
        key = cfg if profile == "release" else f"{cfg}:{profile}"
        per_config[key] = {"evaluations": p["evaluations"], "distinct_nontrivial": p["distinct_nontrivial"], "wall_s": p["wall_s"], "subchecks": p["subchecks"], "extra": p.get("extra", {})}
        for s in p["samples"][: max(3, 24 // max(1, len(partials)))]:
            s = dict(s)
            s["config"] = key
            samples.append(s)
        for k, v in p.get("excluded_known", {}).items():
            excluded[k] = excluded.get(k, 0) + v
        for e in p.get("exhaustive_subdomains", []):
            if e not in exhaustive:
                exhaustive.append(e)
        for n in p.get("notes", []):
            if n not in notes:
                notes.append(n)
        for a in p.get("assumptions", []):
            if a not in assumptions:
                assumptions.append(a)
        rule = p.get("rule", rule)
        for v in p["violations"]:
            violations.append((cfg, profile, v))
    if prop == "C16":
        violations += c16_compare(partials, seed, tier)
    fuzz_stats = None
    if tier == "thorough" and prop in FUZZ and not os.environ.get("VERIF_NO_FUZZ"):
        fv, fuzz_stats, finfra = fuzz_phase(prop, seed)
        infra = infra or finfra
        for v in fv:
            if v.get("property_hit", prop) != prop:
                # fz_c10 carries the C10 and the C11 oracle: the other property's check reports its own
                log(f"  fuzz campaign of {prop} stopped on a violation of {v['property_hit']} (reported by that property's check): {v['message'][:300]}")
                continue
            violations.append(("default", "release", v))
        evaluations += sum(st.get("executed_units", 0) for st in fuzz_stats)
    miri_stats = None
    if tier == "thorough" and prop in MIRI and not os.environ.get("VERIF_NO_MIRI"):
        mv, miri_stats, minfra = miri_phase(prop, seed)
        infra = infra or minfra
        for v in mv:
            violations.append(("default", "release", v))
        evaluations += sum(st.get("parse_calls", 0) + st.get("write_calls", 0) for st in miri_stats)
    status = 0
    lines = []
    for cfg, profile, v in violations:
        path = write_replay(prop, cfg, profile, v)
        lines.append(f"VIOLATION property={prop} replay={path}")
        log(f"  violation [{cfg}:{profile}] {v['subcheck']}: {v['message'][:600]}")
        status = 1
    # regression corpus: committed replay files must pass (strictly), unless they are the canonical
    # replay of an open known finding
    known = load_known()
    open_findings = [f for f in known.get("findings", []) if f.get("property") == prop and f.get("status") == "open"]
    canonical = {os.path.join(VERIF, f["canonical_replay"]) for f in open_findings if f.get("canonical_replay")}
    corpus_dir = os.path.join(CORPUS, "replays", prop)
    n_regress = 0
    if os.path.isdir(corpus_dir):
        for name in sorted(os.listdir(corpus_dir)):
            path = os.path.join(corpus_dir, name)
            if not name.endswith(".json") or path in canonical:
                continue
            st, out = run_replay_file(path)
            n_regress += 1
            if st == "fail":
                lines.append(f"VIOLATION property={prop} replay={path}")
                log(f"  regression replay fails: {path}\n{out[-500:]}")
                status = 1
            elif st == "infra":
                log(f"  regression replay infra problem: {path}: {out[-300:]}")
                infra = True
    known_lines = []
    for f in open_findings:
        cr = f.get("canonical_replay")
        if not cr:
            continue
        st, out = run_replay_file(os.path.join(VERIF, cr))
        if st == "fail":
            known_lines.append(f"KNOWN-FINDING: property={prop} {f['what_fails']}")
        elif st == "pass":
            log(f"  note: known finding {f.get('matcher')} no longer reproduces from its canonical replay")
        else:
            infra = True
    wall = time.time() - t0
    ev = {
        "property_id": prop,
        "tier": tier,
        "seed": seed,
        "level": "exploration",
        "coverage": {
            "evaluations": evaluations,
            "distinct_nontrivial": distinct,
            "rule": rule,
            "samples": samples[:30],
            "exhaustive": False,
            "exhaustive_subdomains": exhaustive,
            "configs": [c if p == "release" else f"{c}:{p}" for c, p, _ in partials],
            "per_config": per_config,
            "excluded_known": excluded,
            "regression_replays_run": n_regress,
            "fuzz_campaign": fuzz_stats,
            "miri_corpus": miri_stats,
            "notes": notes,
        },
        "assumptions": assumptions,
        "wall_s": round(wall, 2),
        "violations": len(violations),
    }
    if evaluations > 0:
        with open(os.path.join(EVIDENCE, f"{prop}.json"), "w") as f:
            json.dump(ev, f, indent=1)
    for l in known_lines:
        print(l)
    for l in dict.fromkeys(lines):
        print(l)
    sys.stdout.flush()
    log(f"{prop} [{tier}] evaluations={evaluations} distinct_nontrivial={distinct} violations={len(violations)} known={len(known_lines)} wall={wall:.0f}s")
    if status == 1:
        return 1
    if infra:
        return 2
    return 0


def setup():
    specs = []
    for prop, (q, e) in PLAN.items():
        specs += q
    specs = list(dict.fromkeys(specs))
    ok = build_many(specs)
    if not ok:
        return 2
    r = subprocess.run([binary("default", "release"), "selftest"], env=ENV)
    if r.returncode != 0:
        log("self-test failed")
        return 2
    # python cross-check of the exact arithmetic
    r = subprocess.run([sys.executable, os.path.join(VERIF, "tools", "pycheck.py"), binary("default", "release")], env=ENV)
    if r.returncode != 0:
        log("python cross-check failed")
        return 2
    return 0


def main():
    if len(sys.argv) < 2:
        print(__doc__)
        return 2
    cmd = sys.argv[1]
    if cmd == "setup":
        return setup()
    if cmd == "build":
        return 0 if build_many(sys.argv[2:]) else 2
    if cmd == "check":
        prop = sys.argv[2]
        tier = os.environ.get("VERIF_TIER", "quick")
        if "--tier" in sys.argv:
            tier = sys.argv[sys.argv.index("--tier") + 1]
        return check(prop, tier)
    if cmd == "replay":
        st, out = run_replay_file(sys.argv[2])
        print(out, end="")
        return {"pass": 0, "fail": 1, "infra": 2}[st]
    print(__doc__)
    return 2


if __name__ == "__main__":
    sys.exit(main())
