//! Coverage-guided search for C01: bytes are decoded into a structured decimal number text
//! (sign, integer digits, optional point + fraction digits, optional exponent) and judged by the
//! same exact-rounding oracle as the proptest check. An unlisted violation aborts the process
//! (libFuzzer saves the input); the message names the decoded text.
#![no_main]
use arbitrary::Unstructured;
use libfuzzer_sys::fuzz_target;
use vcore::report::Local;

fn decode(u: &mut Unstructured) -> Option<Vec<u8>> {
    let mut t = Vec::new();
    match u.int_in_range(0..=2u8).ok()? {
        1 => t.push(b'-'),
        2 => t.push(b'+'),
        _ => {},
    }
    let digits = |u: &mut Unstructured, t: &mut Vec<u8>, max: usize| -> Option<usize> {
        let n = u.int_in_range(0..=max).ok()?;
        for _ in 0..n {
            // two digits per byte keeps inputs dense
            let b = u.arbitrary::<u8>().ok()?;
            t.push(b'0' + (b % 10));
        }
        Some(n)
    };
    // optional run of leading zeros
    if u.ratio(1, 8).ok()? {
        let z = u.int_in_range(0..=40usize).ok()?;
        t.extend(std::iter::repeat(b'0').take(z));
    }
    let ni = digits(u, &mut t, 45)?;
    let mut nf = 0;
    if u.ratio(2, 3).ok()? {
        t.push(b'.');
        if u.ratio(1, 8).ok()? {
            let z = u.int_in_range(0..=60usize).ok()?;
            t.extend(std::iter::repeat(b'0').take(z));
            nf += z;
        }
        nf += digits(u, &mut t, 120)?;
    }
    if ni + nf == 0 {
        t.push(b'0');
    }
    if u.ratio(2, 3).ok()? {
        t.push(if u.arbitrary::<bool>().ok()? { b'e' } else { b'E' });
        match u.int_in_range(0..=2u8).ok()? {
            1 => t.push(b'-'),
            2 => t.push(b'+'),
            _ => {},
        }
        let e = u.int_in_range(0..=400u32).ok()?;
        t.extend(e.to_string().bytes());
    }
    Some(t)
}

fuzz_target!(|data: &[u8]| {
    checks::fz::init();
    let mut u = Unstructured::new(data);
    let text = match decode(&mut u) {
        Some(t) => t,
        None => return,
    };
    let junk = checks::c01::JUNK[(data.len() % checks::c01::JUNK.len())];
    let case = checks::c01::Case { text, class: "fuzz", junk };
    let mut l = Local::new();
    if let Err(f) = checks::c01::check_text::<f64>(&case, &mut l) {
        panic!("VIOLATION property=C01 {}", f.message);
    }
    if let Err(f) = checks::c01::check_text::<f32>(&case, &mut l) {
        panic!("VIOLATION property=C01 {}", f.message);
    }
});
