//! Coverage-guided search for C06 + C07: selector bytes pick a compiled non-decimal writer format,
//! the float type, the notation mode and trim; 8 bytes give the finite value. Oracles of the
//! proptest checks: power-of-two output exact + round trip; generic radix well-formed, accepted,
//! within the ulp bound, integers exact.
#![no_main]
use libfuzzer_sys::fuzz_target;
use vcore::report::Local;

fuzz_target!(|data: &[u8]| {
    checks::fz::init();
    if data.len() < 8 {
        return;
    }
    static JOBS: std::sync::OnceLock<(Vec<checks::c06::Job>, Vec<checks::c06::Job>)> = std::sync::OnceLock::new();
    let (p2, gen) = JOBS.get_or_init(|| (checks::c06::jobs(true), checks::c06::jobs(false)));
    let mut b = checks::fz::Bytes::new(data);
    let sel = b.u8();
    let ji = b.u16() as usize;
    let pow2 = sel & 1 == 0 || gen.is_empty();
    let js = if pow2 { p2 } else { gen };
    if js.is_empty() {
        return;
    }
    let j = &js[ji % js.len()];
    let k = checks::c05::kind_of(j.ty);
    let mut bits = b.u64();
    if k.p == 24 {
        bits &= 0xffff_ffff;
    }
    if !k.is_finite(bits) {
        return;
    }
    let digits = if pow2 { 0 } else { let d = b.u8(); if d & 3 == 0 { (d >> 2) % 41 } else { 0 } };
    let case = checks::c06::Case { bits, notation: (sel >> 1) % 5, trim: sel & 0x80 != 0, digits, min_digits: if pow2 { 0 } else { let d = b.u8(); if d & 3 == 0 { (d >> 2) % 61 } else { 0 } } };
    let mut l = Local::new();
    let r = if pow2 { checks::c06::check_pow2(j, &case, &mut l) } else { checks::c06::check_generic(j, &case, &mut l) };
    if let Err(f) = r {
        if f.matcher.is_none() {
            panic!("VIOLATION property={} {} :: {}", if pow2 { "C06" } else { "C07" }, f.message, checks::c06::case_json(j, &case));
        }
    }
});
