//! Coverage-guided search for C08: selector bytes pick a compiled (format, type) that has a writer
//! and a parser; the value and valid write options without digit truncation are decoded from the
//! bytes; the complete parser of the same format must read back what the writer wrote.
#![no_main]
use checks::c12::Ty;
use libfuzzer_sys::fuzz_target;
use vcore::report::Local;

fuzz_target!(|data: &[u8]| {
    checks::fz::init();
    if data.len() < 6 {
        return;
    }
    static JOBS: std::sync::OnceLock<Vec<checks::c08::Job>> = std::sync::OnceLock::new();
    let jobs = JOBS.get_or_init(checks::c08::jobs);
    let mut b = checks::fz::Bytes::new(data);
    let j = &jobs[b.u16() as usize % jobs.len()];
    let m = &checks::cat::cat().models[j.entry];
    let long_infinity = b.u8() & 1 == 1;
    let (value, opts) = match j.ty {
        Ty::Float(fi) => {
            let k = checks::c05::kind_of(fi);
            let v = if k.p == 24 { b.u32() as u128 } else { b.u64() as u128 };
            let mut o = checks::fz::write_options(&mut b, m, false);
            // no digit truncation (the bit-exact clause of the statement)
            let full = if m.mantissa_radix().is_power_of_two() { 64 } else { 17 };
            if o.max_digits != 0 && o.max_digits < full {
                o.max_digits = 0;
                if o.min_digits > 64 {
                    o.min_digits = 0;
                }
            }
            (v, o)
        },
        Ty::Int(_) => (b.u128(), checks::wopts::WOpts::default_for(m)),
    };
    let case = checks::c08::Case { value, opts, long_infinity };
    let mut l = Local::new();
    if let Err(f) = checks::c08::check(j, &case, &mut l) {
        if f.matcher.is_none() {
            panic!("VIOLATION property=C08 {} :: {}", f.message, checks::c08::case_json(j, &case));
        }
    }
});
