//! Coverage-guided search for C14: selector bytes pick a compiled writer format and float type; the
//! finite value and valid write options (digits 1..64, breaks, round mode, trim, punctuation) are
//! decoded from the bytes; the metamorphic digit/notation oracle of the proptest check judges the
//! output against the default output of the same float. Recorded findings are tolerated.
#![no_main]
use libfuzzer_sys::fuzz_target;
use vcore::report::Local;

fuzz_target!(|data: &[u8]| {
    checks::fz::init();
    if data.len() < 8 {
        return;
    }
    static JOBS: std::sync::OnceLock<Vec<checks::c14::Job>> = std::sync::OnceLock::new();
    let jobs = JOBS.get_or_init(checks::c14::jobs);
    let mut b = checks::fz::Bytes::new(data);
    let j = &jobs[b.u16() as usize % jobs.len()];
    let m = &checks::cat::cat().models[j.entry];
    let k = checks::c05::kind_of(j.ty);
    let mut bits = b.u64();
    if k.p == 24 {
        bits &= 0xffff_ffff;
    }
    if !k.is_finite(bits) {
        return;
    }
    let mut opts = checks::fz::write_options(&mut b, m, false);
    opts.nan = 0;
    opts.inf = 0;
    let case = checks::c14::Case { bits, opts };
    let mut l = Local::new();
    if let Err(f) = checks::c14::check(j, &case, &mut l) {
        if f.matcher.is_none() {
            panic!("VIOLATION property=C14 {} :: {}", f.message, checks::c14::case_json(j, &case));
        }
    }
});
