//! Coverage-guided search for C04: byte 0 selects the integer type, the multi-digit option and the
//! mode, byte 1 the compiled format (every radix of the build), the rest is the input text. Oracle:
//! the reference scan of the proptest check (complete and partial parser), and for the default API
//! additionally the str::parse differential.
#![no_main]
use libfuzzer_sys::fuzz_target;
use vcore::report::Local;

fuzz_target!(|data: &[u8]| {
    checks::fz::init();
    if data.len() < 2 {
        return;
    }
    let text = &data[2..];
    let mut l = Local::new();
    let ty = (data[0] % 12) as usize;
    static ENTRIES: std::sync::OnceLock<Vec<usize>> = std::sync::OnceLock::new();
    // one plain format per radix of the build (the entries the proptest check uses)
    let entries = ENTRIES.get_or_init(|| checks::cat::cat().radix_entries().iter().map(|&(_, ei)| ei).collect());
    if data[0] & 0x40 != 0 {
        macro_rules! go {
            ($($i:expr => $t:ty),*) => {
                match ty { $($i => checks::c04::check_default::<$t>(text, &mut l),)* _ => Ok(()) }
            };
        }
        let r = go!(0 => u8, 1 => u16, 2 => u32, 3 => u64, 4 => u128, 5 => usize, 6 => i8, 7 => i16, 8 => i32, 9 => i64, 10 => i128, 11 => isize);
        if let Err(f) = r {
            panic!("VIOLATION property=C04 {}", f.message);
        }
    } else {
        let entry = entries[data[1] as usize % entries.len()];
        let case = checks::c04::Case { ty, entry, text: text.to_vec(), no_multi_digit: data[0] & 0x80 != 0, class: "fuzz" };
        if let Err(f) = checks::c04::check_case(&case, &mut l) {
            panic!("VIOLATION property=C04 {}", f.message);
        }
    }
});
