//! Coverage-guided search for C04 (default API): first byte selects the integer type, the rest is
//! the input text; the reference scan + str::parse differential of the proptest check decide.
#![no_main]
use libfuzzer_sys::fuzz_target;
use vcore::report::Local;

fuzz_target!(|data: &[u8]| {
    if data.is_empty() {
        return;
    }
    let text = &data[1..];
    let mut l = Local::new();
    macro_rules! go {
        ($($i:expr => $t:ty),*) => {
            match data[0] % 12 { $($i => checks::c04::check_default::<$t>(text, &mut l),)* _ => Ok(()) }
        };
    }
    let r = go!(0 => u8, 1 => u16, 2 => u32, 3 => u64, 4 => u128, 5 => usize, 6 => i8, 7 => i16, 8 => i32, 9 => i64, 10 => i128, 11 => isize);
    if let Err(f) = r {
        panic!("VIOLATION property=C04 {}", f.message);
    }
});
