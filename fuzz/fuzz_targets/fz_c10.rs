//! Coverage-guided search for C10 + C11 on every compiled format of the build: the first two bytes
//! select the catalogue entry and the type, the rest is the raw input. Totality (no panic, counts
//! and indices within the input; ASan watches the memory) and the partial/complete relations.
#![no_main]
use checks::c12::Ty;
use libfuzzer_sys::fuzz_target;
use vcore::report::Local;

fuzz_target!(|data: &[u8]| {
    checks::fz::init();
    if data.len() < 2 {
        return;
    }
    static JOBS: std::sync::OnceLock<Vec<checks::c10::Job>> = std::sync::OnceLock::new();
    let jobs = JOBS.get_or_init(|| {
        checks::c10::init_worker(None, 0);
        checks::c10::jobs()
    });
    let j = &jobs[(data[0] as usize * 7 + data[1] as usize) % jobs.len()];
    let text = &data[2..];
    let mut l = Local::new();
    if let Err(f) = checks::c10::total_check(j.entry, j.ty, text, data[0] & 1 == 1, &mut l) {
        panic!("VIOLATION property=C10 {}", f.message);
    }
    let job11 = checks::c11::Job { entry: j.entry, ty: j.ty, punct: 0 };
    if let Err(f) = checks::c11::check_input(&job11, text, &mut l) {
        // the recorded C11 findings are tolerated in-target so campaigns do not stop on them
        if f.matcher.is_none() {
            panic!("VIOLATION property=C11 {}", f.message);
        }
    }
    let _ = Ty::Float(0);
});
