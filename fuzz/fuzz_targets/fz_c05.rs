//! Coverage-guided search for C05 + C19: byte 0/1 select the compiled radix / mixed-base format and
//! the float type, byte 2 the junk byte and the lossy mode; the rest is decoded into a structured
//! number text of that radix (digits of the radix, exponent written in the exponent-digit radix).
//! Oracle: the exact rational rounding oracle of the proptest check (parse, partial, partial+junk),
//! in lossy mode the one-ulp relation of C19.
#![no_main]
use libfuzzer_sys::fuzz_target;
use vcore::report::Local;

fuzz_target!(|data: &[u8]| {
    checks::fz::init();
    if data.len() < 4 {
        return;
    }
    static JOBS: std::sync::OnceLock<Vec<checks::c05::Job>> = std::sync::OnceLock::new();
    let jobs = JOBS.get_or_init(|| checks::c05::jobs(|_, _| true));
    let mut b = checks::fz::Bytes::new(data);
    let j = &jobs[b.u16() as usize % jobs.len()];
    let sel = b.u8();
    let m = &checks::cat::cat().models[j.entry];
    let ec = checks::c05::exp_char_for(m);
    let text = checks::fz::number_text(&mut b, m.radices(), b'.', ec);
    let case = checks::c05::Case { text, class: "fuzz", junk: checks::c01::JUNK[(sel >> 1) as usize % checks::c01::JUNK.len()] };
    let lossy = sel & 1 == 1;
    let mut l = Local::new();
    if let Err(f) = checks::c05::check(j, &case, &mut l, lossy) {
        if f.matcher.is_none() {
            panic!("VIOLATION property={} {} :: {}", if lossy { "C19" } else { "C05" }, f.message, checks::c05::case_json(j, &case));
        }
    }
});
