//! Coverage-guided search for C02: 1 selector byte + 8 value bytes -> a finite f32/f64 written with
//! the default API; the bytes are judged by the exact interval oracle of the proptest check (round
//! trip, digit count, shortest + closest in non-compact builds).
#![no_main]
use libfuzzer_sys::fuzz_target;
use vcore::report::Local;

fuzz_target!(|data: &[u8]| {
    checks::fz::init();
    if data.len() < 5 {
        return;
    }
    let mut b = checks::fz::Bytes::new(data);
    let sel = b.u8();
    let mut l = Local::new();
    let r = if sel & 1 == 0 {
        let bits = b.u32();
        if (bits >> 23) & 0xff == 0xff {
            return;
        }
        checks::c02::check_bits::<f32>(bits as u64, &mut l)
    } else {
        let bits = b.u64();
        if (bits >> 52) & 0x7ff == 0x7ff {
            return;
        }
        checks::c02::check_bits::<f64>(bits, &mut l)
    };
    if let Err(f) = r {
        if f.matcher.is_none() {
            panic!("VIOLATION property=C02 {}", f.message);
        }
    }
});
