//! Coverage-guided search for C09: selector bytes pick a compiled writer (format, type); value,
//! valid write options over the extreme ranges (hundreds of digits, breaks up to i32::MIN/MAX) and
//! the short-buffer selector are decoded from the bytes. The proptest check's guarded writes
//! (exactly sized slices between guard pages, both placements, canaries) run inside the target and
//! ASan additionally watches every heap/stack access of the library.
#![no_main]
use checks::c12::Ty;
use libfuzzer_sys::fuzz_target;
use vcore::report::Local;

fuzz_target!(|data: &[u8]| {
    checks::fz::init();
    if data.len() < 6 {
        return;
    }
    static JOBS: std::sync::OnceLock<Vec<checks::c09::Job>> = std::sync::OnceLock::new();
    let jobs = JOBS.get_or_init(checks::c09::jobs);
    let mut b = checks::fz::Bytes::new(data);
    let j = &jobs[b.u16() as usize % jobs.len()];
    let m = &checks::cat::cat().models[j.entry];
    let short = b.u16();
    let (value, opts) = match j.ty {
        Ty::Float(fi) => {
            let k = checks::c05::kind_of(fi);
            let v = if k.p == 24 { b.u32() as u128 } else { b.u64() as u128 };
            (v, checks::fz::write_options(&mut b, m, true))
        },
        Ty::Int(_) => (b.u128(), checks::wopts::WOpts::default_for(m)),
    };
    let case = checks::c09::Case { value, opts, short };
    let mut l = Local::new();
    if let Err(f) = checks::c09::check_case(j, &case, &mut l) {
        if f.matcher.is_none() {
            panic!("VIOLATION property=C09 {} :: {}", f.message, checks::c09::case_json(j, &case, None, None));
        }
    }
});
