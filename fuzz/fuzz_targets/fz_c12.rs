//! Coverage-guided search for C12 + C13: two selector bytes pick any compiled format with parsers
//! (syntax-flag, prebuilt, digit-separator and core formats) and the type; the remaining bytes are
//! mapped onto the format's number alphabet (signs, digits, point, exponent character in both
//! cases, separator, prefix/suffix letters, special-string letters, junk) or taken raw. Oracles of
//! the proptest checks: the reference grammar (acceptance + value) for separator-free inputs, and
//! the separator relations (delete / classify / counterpart) otherwise.
#![no_main]
use libfuzzer_sys::fuzz_target;
use vcore::report::Local;

fuzz_target!(|data: &[u8]| {
    checks::fz::init();
    if data.len() < 3 {
        return;
    }
    static JOBS: std::sync::OnceLock<Vec<checks::c12::Job>> = std::sync::OnceLock::new();
    let jobs = JOBS.get_or_init(|| {
        let mut v = checks::c12::jobs(&["core", "syntax", "prebuilt"], false);
        v.extend(checks::c12::jobs(&["sep"], true));
        v
    });
    if jobs.is_empty() {
        return;
    }
    let j = &jobs[(data[0] as usize | (data[1] as usize) << 8) % jobs.len()];
    let m = &checks::cat::cat().models[j.entry];
    let o = checks::c12::opt_model_for(m);
    let with_sep = m.digit_separator != 0;
    let alpha = checks::c12::alphabet(m, &o, with_sep);
    let raw = data[2] & 1 == 1;
    let text: Vec<u8> = if raw { data[3..].to_vec() } else { data[3..].iter().map(|&c| alpha[c as usize % alpha.len()]).collect() };
    let mut l = Local::new();
    let has_sep = with_sep && text.contains(&m.digit_separator);
    if !has_sep {
        if let Err(f) = checks::c12::check_one(j.entry, j.ty, &text, &mut l) {
            if f.matcher.is_none() {
                panic!("VIOLATION property=C12 {} :: {}", f.message, checks::c12::case_json(j.entry, j.ty, &text));
            }
        }
    }
    if with_sep {
        if let Err(f) = checks::c13::check_input(j.entry, j.ty, &text, &mut l) {
            if f.matcher.is_none() {
                panic!("VIOLATION property=C13 {} :: {}", f.message, checks::c12::case_json(j.entry, j.ty, &text));
            }
        }
    }
});
