//! Generated corpus of lexical calls for the Miri pass (thorough tier of C09 and C10).
//!
//! `miri-corpus <seed> <cases>` prints one line `RESULT <hash> cases=<n> parse=<n> write=<n> panics=<n>`.
//! All randomness is a splitmix stream of the seed, so the native run and the Miri run execute exactly
//! the same calls; their result hashes must be equal (a difference means the result depends on
//! uninitialised or out-of-bounds memory), and Miri itself aborts on undefined behaviour.
//!
//! Inputs live in heap allocations of exactly the input length, outputs in allocations of exactly the
//! documented bound (or shorter, under catch_unwind), so an access outside the caller's slice is an
//! access outside the allocation.

use lexical_core::format::{NumberFormatBuilder, STANDARD};
use lexical_core::{FormattedSize, ParseFloatOptions, ParseIntegerOptions, WriteFloatOptions, WriteIntegerOptions};
use std::num::{NonZeroI32, NonZeroUsize};
use std::panic::{catch_unwind, AssertUnwindSafe};

struct Rng(u64);
impl Rng {
    fn next(&mut self) -> u64 {
        self.0 = self.0.wrapping_add(0x9e3779b97f4a7c15);
        let mut z = self.0;
        z = (z ^ (z >> 30)).wrapping_mul(0xbf58476d1ce4e5b9);
        z = (z ^ (z >> 27)).wrapping_mul(0x94d049bb133111eb);
        z ^ (z >> 31)
    }
    fn below(&mut self, n: u64) -> u64 {
        self.next() % n.max(1)
    }
}

struct Acc {
    h: u64,
    parse: u64,
    write: u64,
    panics: u64,
}
static TRACE: std::sync::atomic::AtomicBool = std::sync::atomic::AtomicBool::new(false);

impl Acc {
    fn add(&mut self, bytes: &[u8]) {
        if TRACE.load(std::sync::atomic::Ordering::Relaxed) {
            println!("  add {:?}", String::from_utf8_lossy(bytes));
        }
        for &b in bytes {
            self.h = (self.h ^ b as u64).wrapping_mul(0x100000001b3);
        }
        self.h = self.h.rotate_left(7) ^ bytes.len() as u64;
    }
    fn add_u(&mut self, v: u128) {
        self.add(&v.to_le_bytes());
    }
}

fn digit(d: u32, lower: bool) -> u8 {
    if d < 10 {
        b'0' + d as u8
    } else if lower {
        b'a' + (d - 10) as u8
    } else {
        b'A' + (d - 10) as u8
    }
}

/// Exact rounding midpoints (so that the moderate path cannot decide and the big-integer slow path runs):
/// (2m+1) * 2^s for integers, (2m+1) * 5^k / 10^k for fractions (decimal); the digits of 2m+1 followed by a
/// shift for power-of-two radices. Optionally followed by zeros and a final non-zero digit, or cut short.
fn halfway_text(r: &mut Rng, radix: u32, point: u8, ec: u8) -> Vec<u8> {
    let bits = if r.below(3) == 0 { 24 } else { 53 };
    let m: u128 = (1u128 << (bits - 1)) | (r.next() as u128 & ((1u128 << (bits - 1)) - 1));
    let odd = 2 * m + 1;
    let mut t = Vec::new();
    if r.below(4) == 0 {
        t.push(b'-');
    }
    let to_digits = |mut v: u128, radix: u32| -> Vec<u8> {
        let mut d = Vec::new();
        loop {
            d.push(digit((v % radix as u128) as u32, false));
            v /= radix as u128;
            if v == 0 {
                break;
            }
        }
        d.reverse();
        d
    };
    if radix == 10 {
        if r.below(2) == 0 {
            let s = r.below(60) as u32;
            t.extend(to_digits(odd << s, 10));
        } else {
            let k = 1 + r.below(27) as u32;
            let ds = to_digits(odd * 5u128.pow(k), 10);
            if ds.len() as u32 > k {
                let cut = ds.len() - k as usize;
                t.extend_from_slice(&ds[..cut]);
                t.push(point);
                t.extend_from_slice(&ds[cut..]);
            } else {
                t.push(b'0');
                t.push(point);
                t.extend(std::iter::repeat(b'0').take(k as usize - ds.len()));
                t.extend(ds);
            }
        }
        if !t.contains(&point) {
            t.push(point);
        }
    } else {
        t.extend(to_digits(odd, radix));
        t.push(point);
    }
    match r.below(4) {
        0 => {},
        1 => {
            let z = r.below(800) as usize;
            t.extend(std::iter::repeat(b'0').take(z));
            t.push(b'1');
        },
        2 => {
            t.pop();
        },
        _ => {
            let z = r.below(40) as usize;
            t.extend(std::iter::repeat(b'0').take(z));
        },
    }
    if r.below(2) == 0 {
        t.push(ec);
        if r.below(2) == 0 {
            t.push(b'-');
        }
        t.push(digit(r.below(radix.min(10) as u64) as u32, false));
        if r.below(3) == 0 {
            t.push(digit(r.below(radix.min(10) as u64) as u32, false));
        }
    }
    t
}

/// number text over the radix with optional separators / prefix / junk, or raw bytes
fn gen_text(r: &mut Rng, radix: u32, sep: u8, point: u8, ec: u8) -> Vec<u8> {
    let mut t = Vec::new();
    let shape = r.below(10);
    if shape >= 7 && (radix == 10 || radix.is_power_of_two()) {
        return halfway_text(r, radix, point, ec);
    }
    if shape == 0 {
        let n = r.below(24) as usize;
        for _ in 0..n {
            t.push(r.next() as u8);
        }
        return t;
    }
    match r.below(4) {
        0 => t.push(b'-'),
        1 => t.push(b'+'),
        _ => {},
    }
    let lower = r.below(2) == 0;
    let digits = |r: &mut Rng, t: &mut Vec<u8>, n: usize| {
        for i in 0..n {
            t.push(digit(r.below(radix as u64) as u32, lower));
            if sep != 0 && i + 1 < n && r.below(6) == 0 {
                t.push(sep);
            }
        }
    };
    let ni = match r.below(6) {
        0 => 0,
        1 | 2 => 1 + r.below(4) as usize,
        3 => 7 + r.below(4) as usize,
        4 => 17 + r.below(6) as usize,
        _ => 30 + r.below(40) as usize,
    };
    if sep != 0 && r.below(8) == 0 {
        t.push(sep);
    }
    digits(r, &mut t, ni);
    if r.below(3) != 0 {
        t.push(point);
        let nf = match r.below(6) {
            0 => 0,
            1 | 2 => 1 + r.below(5) as usize,
            3 => 8 + r.below(12) as usize,
            4 => 40 + r.below(60) as usize,
            _ => 760 + r.below(20) as usize,
        };
        digits(r, &mut t, nf);
    }
    if r.below(2) == 0 {
        t.push(ec);
        match r.below(3) {
            0 => t.push(b'-'),
            1 => t.push(b'+'),
            _ => {},
        }
        let e = match r.below(4) {
            0 => r.below(30),
            1 => r.below(400),
            2 => r.below(100_000),
            _ => r.next(),
        };
        let mut ds = Vec::new();
        let mut x = e;
        loop {
            ds.push(digit((x % radix as u64) as u32, lower));
            x /= radix as u64;
            if x == 0 {
                break;
            }
        }
        ds.reverse();
        t.extend(ds);
    }
    match r.below(8) {
        0 => t.push(b' '),
        1 => t.push(sep.max(b'_')),
        2 => t.extend_from_slice(b"inf"),
        _ => {},
    }
    t
}

fn exact(v: &[u8]) -> Box<[u8]> {
    v.to_vec().into_boxed_slice()
}

fn parse_all<const F: u128>(r: &mut Rng, acc: &mut Acc, radix: u32, sep: u8, ec: u8) {
    let text = gen_text(r, radix, sep, b'.', ec);
    let input = exact(&text);
    let fo = ParseFloatOptions::builder().exponent(ec).lossy(r.below(4) == 0).build_unchecked();
    let io = ParseIntegerOptions::builder().no_multi_digit(r.below(2) == 0).build_unchecked();
    macro_rules! f {
        ($t:ty) => {{
            match lexical_core::parse_with_options::<$t, F>(&input, &fo) {
                Ok(v) => acc.add_u(if v.is_nan() { u128::MAX } else { v.to_bits() as u128 }),
                Err(e) => acc.add(format!("{e:?}").as_bytes()),
            }
            match lexical_core::parse_partial_with_options::<$t, F>(&input, &fo) {
                Ok((v, n)) => {
                    assert!(n <= input.len());
                    acc.add_u(if v.is_nan() { u128::MAX } else { v.to_bits() as u128 });
                    acc.add_u(n as u128);
                },
                Err(e) => acc.add(format!("{e:?}").as_bytes()),
            }
            acc.parse += 2;
        }};
    }
    macro_rules! i {
        ($t:ty) => {{
            match lexical_core::parse_with_options::<$t, F>(&input, &io) {
                Ok(v) => acc.add_u(v as u128),
                Err(e) => acc.add(format!("{e:?}").as_bytes()),
            }
            match lexical_core::parse_partial_with_options::<$t, F>(&input, &io) {
                Ok((v, n)) => {
                    assert!(n <= input.len());
                    acc.add_u(v as u128);
                    acc.add_u(n as u128);
                },
                Err(e) => acc.add(format!("{e:?}").as_bytes()),
            }
            acc.parse += 2;
        }};
    }
    match r.below(7) {
        0 | 1 => f!(f64),
        2 => f!(f32),
        3 => i!(u8),
        4 => i!(i64),
        5 => i!(u128),
        _ => i!(i32),
    }
}

fn write_float<const F: u128>(r: &mut Rng, acc: &mut Acc, ec: u8) {
    let max = match r.below(4) {
        0 => 0,
        1 => 1 + r.below(20) as usize,
        _ => 0,
    };
    let min = match r.below(5) {
        0 => 1 + r.below(40) as usize,
        1 => 60 + r.below(200) as usize,
        _ => 0,
    };
    let (max, min) = if max != 0 && min != 0 { (max.max(min), max.min(min)) } else { (max, min) };
    let pb = match r.below(4) {
        0 => 1 + r.below(30) as i32,
        1 => 300 + r.below(40) as i32,
        _ => 0,
    };
    let nb = match r.below(4) {
        0 => -(1 + r.below(30) as i32),
        1 => -(300 + r.below(40) as i32),
        _ => 0,
    };
    let o = WriteFloatOptions::builder()
        .max_significant_digits(NonZeroUsize::new(max))
        .min_significant_digits(NonZeroUsize::new(min))
        .positive_exponent_break(NonZeroI32::new(pb))
        .negative_exponent_break(NonZeroI32::new(nb))
        .trim_floats(r.below(3) == 0)
        .exponent(ec)
        .build_unchecked();
    macro_rules! go {
        ($t:ty, $bits:expr) => {{
            let v = <$t>::from_bits($bits);
            let bound = o.buffer_size_const::<$t, F>();
            let len = if r.below(4) == 0 { r.below(bound as u64 + 1) as usize } else { bound };
            let mut buf = vec![0xa5u8; len].into_boxed_slice();
            let res = catch_unwind(AssertUnwindSafe(|| lexical_core::write_with_options::<$t, F>(v, &mut buf, &o).to_vec()));
            match res {
                Ok(out) => {
                    assert!(out.len() <= len);
                    assert!(out.iter().all(|b| *b < 0x80));
                    acc.add(&out);
                },
                Err(_) => {
                    assert!(len < bound, "writer panicked with a buffer of the documented size");
                    acc.panics += 1;
                    acc.add(b"panic");
                },
            }
            acc.write += 1;
        }};
    }
    let bits = r.next();
    let structured = match r.below(5) {
        0 => bits,
        1 => bits & 0xfff0_0000_0000_0000,
        2 => bits | 0x000f_ffff_ffff_ffff,
        3 => (bits % 2000) as f64 as u64 as u64 | ((bits % 2000) as f64).to_bits(),
        _ => bits & 0x800f_ffff_ffff_ffff,
    };
    if r.below(3) == 0 {
        let b32 = structured as u32;
        if f32::from_bits(b32).is_finite() {
            go!(f32, b32);
        }
    } else if f64::from_bits(structured).is_finite() {
        go!(f64, structured);
    }
}

fn write_int<const F: u128>(r: &mut Rng, acc: &mut Acc) {
    let o = WriteIntegerOptions::new();
    let x = r.next() as u128 | ((r.next() as u128) << 64);
    let x = match r.below(4) {
        0 => x,
        1 => x >> r.below(128),
        2 => u128::MAX,
        _ => 1u128 << r.below(128),
    };
    macro_rules! go {
        ($t:ty) => {{
            let v = x as $t;
            let bound = o.buffer_size_const::<$t, F>();
            let len = if r.below(4) == 0 { r.below(bound as u64 + 1) as usize } else { bound };
            let mut buf = vec![0xa5u8; len].into_boxed_slice();
            let res = catch_unwind(AssertUnwindSafe(|| lexical_core::write_with_options::<$t, F>(v, &mut buf, &o).to_vec()));
            match res {
                Ok(out) => {
                    assert!(out.len() <= len);
                    acc.add(&out);
                },
                Err(_) => {
                    assert!(len < bound, "writer panicked with a buffer of the documented size");
                    acc.panics += 1;
                    acc.add(b"panic");
                },
            }
            acc.write += 1;
        }};
    }
    match r.below(8) {
        0 => go!(u8),
        1 => go!(i8),
        2 => go!(u32),
        3 => go!(i64),
        4 => go!(u128),
        5 => go!(i128),
        6 => go!(usize),
        _ => go!(i16),
    }
}

fn default_api(r: &mut Rng, acc: &mut Acc) {
    let text = gen_text(r, 10, 0, b'.', b'e');
    let input = exact(&text);
    match lexical_core::parse::<f64>(&input) {
        Ok(v) => acc.add_u(if v.is_nan() { u128::MAX } else { v.to_bits() as u128 }),
        Err(e) => acc.add(format!("{e:?}").as_bytes()),
    }
    match lexical_core::parse_partial::<f32>(&input) {
        Ok((v, n)) => {
            assert!(n <= input.len());
            acc.add_u(if v.is_nan() { u128::MAX } else { v.to_bits() as u128 });
        },
        Err(e) => acc.add(format!("{e:?}").as_bytes()),
    }
    match lexical_core::parse::<u64>(&input) {
        Ok(v) => acc.add_u(v as u128),
        Err(e) => acc.add(format!("{e:?}").as_bytes()),
    }
    match lexical::parse_partial::<i128, _>(&input) {
        Ok((v, n)) => {
            assert!(n <= input.len());
            acc.add_u(v as u128);
        },
        Err(e) => acc.add(format!("{e:?}").as_bytes()),
    }
    acc.parse += 4;
    let v = f64::from_bits(r.next());
    if v.is_finite() {
        let mut buf = vec![0u8; f64::FORMATTED_SIZE_DECIMAL].into_boxed_slice();
        let out = lexical_core::write(v, &mut buf).to_vec();
        acc.add(&out);
        acc.add(lexical::to_string(v).as_bytes());
        let w = (v as f32, r.next() as i64, r.next() as u128);
        let mut b2 = vec![0u8; f32::FORMATTED_SIZE_DECIMAL].into_boxed_slice();
        acc.add(lexical_core::write(w.0, &mut b2));
        let mut b3 = vec![0u8; i64::FORMATTED_SIZE_DECIMAL].into_boxed_slice();
        acc.add(lexical_core::write(w.1, &mut b3));
        let mut b4 = vec![0u8; u128::FORMATTED_SIZE_DECIMAL].into_boxed_slice();
        acc.add(lexical_core::write(w.2, &mut b4));
        acc.write += 5;
    }
}

#[cfg(feature = "radix")]
mod fmts {
    use super::*;
    pub const R2: u128 = NumberFormatBuilder::from_radix(2);
    pub const R16: u128 = NumberFormatBuilder::from_radix(16);
    pub const R36: u128 = NumberFormatBuilder::from_radix(36);
    pub const R3: u128 = NumberFormatBuilder::from_radix(3);
    pub const R12: u128 = NumberFormatBuilder::from_radix(12);
    pub const HEXF: u128 = NumberFormatBuilder::new().mantissa_radix(16).exponent_base(std::num::NonZeroU8::new(2)).exponent_radix(std::num::NonZeroU8::new(10)).build_strict();
}
#[cfg(feature = "format")]
mod sfmts {
    use super::*;
    pub const SEP_ALL: u128 = NumberFormatBuilder::new().digit_separator(std::num::NonZeroU8::new(b'_')).digit_separator_flags(true).build_strict();
    pub const SEP_INT: u128 = NumberFormatBuilder::new().digit_separator(std::num::NonZeroU8::new(b'_')).integer_internal_digit_separator(true).build_strict();
    pub const SEP_FRAC_LT: u128 = NumberFormatBuilder::new()
        .digit_separator(std::num::NonZeroU8::new(b'_'))
        .fraction_leading_digit_separator(true)
        .fraction_trailing_digit_separator(true)
        .exponent_internal_digit_separator(true)
        .exponent_consecutive_digit_separator(true)
        .build_strict();
    pub const LOOSE: u128 = NumberFormatBuilder::new().required_digits(false).no_special(true).build_strict();
    pub const STRICT: u128 = NumberFormatBuilder::new()
        .required_exponent_sign(true)
        .no_float_leading_zeros(true)
        .no_integer_leading_zeros(true)
        .case_sensitive_exponent(true)
        .no_exponent_without_fraction(true)
        .build_strict();
}
#[cfg(all(feature = "format", feature = "radix"))]
mod pfmts {
    use super::*;
    pub const HEX_PREFIX: u128 = NumberFormatBuilder::new()
        .mantissa_radix(16)
        .exponent_base(std::num::NonZeroU8::new(2))
        .exponent_radix(std::num::NonZeroU8::new(10))
        .base_prefix(std::num::NonZeroU8::new(b'x'))
        .base_suffix(std::num::NonZeroU8::new(b'h'))
        .digit_separator(std::num::NonZeroU8::new(b'_'))
        .digit_separator_flags(true)
        .build_strict();
}

fn main() {
    let args: Vec<String> = std::env::args().collect();
    let seed: u64 = args.get(1).and_then(|s| s.parse().ok()).unwrap_or(0);
    let cases: u64 = args.get(2).and_then(|s| s.parse().ok()).unwrap_or(300);
    std::panic::set_hook(Box::new(|_| {}));
    let mut r = Rng(seed ^ 0x6d69_7269);
    let mut acc = Acc { h: 0xcbf29ce484222325, parse: 0, write: 0, panics: 0 };
    let trace = args.get(3).map(|s| s == "trace").unwrap_or(false);
    TRACE.store(trace, std::sync::atomic::Ordering::Relaxed);
    for case_no in 0..cases {
        if trace {
            // running hash before each case: the first line that differs between two executions names the case
            println!("CASE {case_no} {:016x} parse={} write={}", acc.h, acc.parse, acc.write);
        }
        let mut kinds: Vec<u32> = vec![0, 1, 2, 3];
        if cfg!(feature = "radix") {
            kinds.extend([10, 11, 12, 13, 14, 15, 16, 17]);
        }
        if cfg!(feature = "format") {
            kinds.extend([20, 21, 22, 23, 24]);
        }
        if cfg!(all(feature = "format", feature = "radix")) {
            kinds.extend([30, 30]);
        }
        let k = kinds[r.below(kinds.len() as u64) as usize];
        match k {
            0 => default_api(&mut r, &mut acc),
            1 => parse_all::<STANDARD>(&mut r, &mut acc, 10, 0, b'e'),
            2 => write_float::<STANDARD>(&mut r, &mut acc, b'e'),
            3 => write_int::<STANDARD>(&mut r, &mut acc),
            #[cfg(feature = "radix")]
            10 => parse_all::<{ fmts::R2 }>(&mut r, &mut acc, 2, 0, b'e'),
            #[cfg(feature = "radix")]
            11 => parse_all::<{ fmts::R16 }>(&mut r, &mut acc, 16, 0, b'^'),
            #[cfg(feature = "radix")]
            12 => parse_all::<{ fmts::R36 }>(&mut r, &mut acc, 36, 0, b'^'),
            #[cfg(feature = "radix")]
            13 => parse_all::<{ fmts::R3 }>(&mut r, &mut acc, 3, 0, b'e'),
            #[cfg(feature = "radix")]
            14 => parse_all::<{ fmts::HEXF }>(&mut r, &mut acc, 16, 0, b'p'),
            #[cfg(feature = "radix")]
            15 => {
                match r.below(4) {
                    0 => write_float::<{ fmts::R2 }>(&mut r, &mut acc, b'e'),
                    1 => write_float::<{ fmts::R16 }>(&mut r, &mut acc, b'^'),
                    2 => write_float::<{ fmts::R3 }>(&mut r, &mut acc, b'e'),
                    _ => write_float::<{ fmts::HEXF }>(&mut r, &mut acc, b'p'),
                }
            },
            #[cfg(feature = "radix")]
            16 => {
                match r.below(3) {
                    0 => write_int::<{ fmts::R2 }>(&mut r, &mut acc),
                    1 => write_int::<{ fmts::R36 }>(&mut r, &mut acc),
                    _ => write_int::<{ fmts::R12 }>(&mut r, &mut acc),
                }
            },
            #[cfg(feature = "radix")]
            17 => write_float::<{ fmts::R36 }>(&mut r, &mut acc, b'^'),
            #[cfg(feature = "format")]
            20 => parse_all::<{ sfmts::SEP_ALL }>(&mut r, &mut acc, 10, b'_', b'e'),
            #[cfg(feature = "format")]
            21 => parse_all::<{ sfmts::SEP_INT }>(&mut r, &mut acc, 10, b'_', b'e'),
            #[cfg(feature = "format")]
            22 => parse_all::<{ sfmts::SEP_FRAC_LT }>(&mut r, &mut acc, 10, b'_', b'e'),
            #[cfg(feature = "format")]
            23 => parse_all::<{ sfmts::LOOSE }>(&mut r, &mut acc, 10, 0, b'e'),
            #[cfg(feature = "format")]
            24 => parse_all::<{ sfmts::STRICT }>(&mut r, &mut acc, 10, 0, b'e'),
            #[cfg(all(feature = "format", feature = "radix"))]
            30 => parse_all::<{ pfmts::HEX_PREFIX }>(&mut r, &mut acc, 16, b'_', b'p'),
            _ => {},
        }
    }
    println!("RESULT {:016x} cases={} parse={} write={} panics={}", acc.h, cases, acc.parse, acc.write, acc.panics);
}
