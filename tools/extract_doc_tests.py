#!/usr/bin/env python3
"""Extract the hidden `<!-- TEST` doc blocks of lexical-util/src/format_builder.rs into a
conformance corpus (corpus/doc_tests.json): packed format, type, input bytes, expected Ok/Err.
The reference grammar of the harness must agree with every entry (checked at setup)."""
import json
import os
import re
import sys

sys.path.insert(0, os.path.dirname(os.path.abspath(__file__)))
from gen_formats import FLAGS, Fmt, DEFAULT_ON

SRC = "/repo/lexical-util/src/format_builder.rs"
OUT = os.path.join(os.path.dirname(os.path.dirname(os.path.abspath(__file__))), "corpus", "doc_tests.json")

GROUPS = {
    "required_digits": ["required_integer_digits", "required_fraction_digits", "required_exponent_digits", "required_mantissa_digits"],
    "internal_digit_separator": [f"{c}_internal_digit_separator" for c in ("integer", "fraction", "exponent")],
    "leading_digit_separator": [f"{c}_leading_digit_separator" for c in ("integer", "fraction", "exponent")],
    "trailing_digit_separator": [f"{c}_trailing_digit_separator" for c in ("integer", "fraction", "exponent")],
    "consecutive_digit_separator": [f"{c}_consecutive_digit_separator" for c in ("integer", "fraction", "exponent")],
}


def byte_lit(s):
    s = s.strip()
    m = re.match(r"b'(\\?.)'", s)
    if m:
        c = m.group(1)
        return ord(c[-1]) if not c.startswith("\\") else {"n": 10, "t": 9, "\\": 92, "'": 39}[c[1]]
    return int(s)


def parse_format(expr):
    f = Fmt("doc", "doc")
    on, off = set(f.flags), set()
    f.flags = set(DEFAULT_ON)
    for name, arg in re.findall(r"\.([a-z_0-9]+)\(([^()]*(?:\([^()]*\))?[^()]*)\)", expr):
        arg = arg.strip()
        if name in ("build_strict", "build_unchecked", "build"):
            continue
        if name in ("radix", "mantissa_radix"):
            f.radix = int(arg)
        elif name == "exponent_base":
            f.base = byte_lit(re.search(r"new\((.*)\)", arg).group(1))
        elif name == "exponent_radix":
            f.eradix = byte_lit(re.search(r"new\((.*)\)", arg).group(1))
        elif name == "digit_separator":
            f.sep = byte_lit(re.search(r"new\((.*)\)", arg).group(1))
        elif name == "base_prefix":
            f.prefix = byte_lit(re.search(r"new\((.*)\)", arg).group(1))
        elif name == "base_suffix":
            f.suffix = byte_lit(re.search(r"new\((.*)\)", arg).group(1))
        elif name in FLAGS:
            (f.flags.add if arg == "true" else f.flags.discard)(name)
        elif name in GROUPS:
            for g in GROUPS[name]:
                (f.flags.add if arg == "true" else f.flags.discard)(g)
        else:
            raise ValueError(f"unknown builder method {name}({arg})")
    return f


def unescape(s):
    return bytes(s, "latin1").decode("unicode_escape").encode("latin1")


def main():
    src = open(SRC).read()
    out = []
    for block in re.finditer(r"<!-- TEST\n(.*?)-->", src, re.S):
        line = src[: block.start()].count("\n") + 1
        body = "\n".join(l.strip()[3:].lstrip() if l.strip().startswith("///") else l for l in block.group(1).splitlines())
        fmts = {}
        for m in re.finditer(r"const (\w+): u128 = (NumberFormatBuilder::[^;]*);", body, re.S):
            expr = m.group(2)
            base = re.match(r"NumberFormatBuilder::(new|from_radix|hexadecimal|binary|octal|decimal)\((\d*)\)", expr)
            f = parse_format(expr)
            if base.group(1) == "from_radix":
                f.radix = int(base.group(2))
            elif base.group(1) == "hexadecimal":
                f.radix = 16
            elif base.group(1) == "binary":
                f.radix = 2
            elif base.group(1) == "octal":
                f.radix = 8
            fmts[m.group(1)] = f
        for m in re.finditer(r"assert_eq!\(parse_with_options::<(\w+), (\w+)>\(b\"((?:[^\"\\]|\\.)*)\", &(\w+)\), (Ok|Err)\(([^;]*)\)\);", body):
            ty, fname, inp, opts, ok, rest = m.groups()
            if fname not in fmts:
                continue
            f = fmts[fname]
            out.append(
                {
                    "line": line,
                    "format": f"0x{f.packed():032x}",
                    "type": ty,
                    "input_hex": unescape(inp).hex(),
                    "input": inp,
                    "options": opts,
                    "expect": ok.lower(),
                    "detail": rest.strip().rstrip(")"),
                }
            )
    os.makedirs(os.path.dirname(OUT), exist_ok=True)
    json.dump(out, open(OUT, "w"), indent=0)
    print(f"extracted {len(out)} assertions from {len(set(o['line'] for o in out))} blocks")
    opts = sorted(set(o["options"] for o in out))
    print("options used:", opts)


if __name__ == "__main__":
    main()
