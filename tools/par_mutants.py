#!/usr/bin/env python3
"""Run registered quick checks against several seeded changes at once, each in its own mount namespace.

Every job gets a private copy of the repository with the change applied and a private copy of /verif
(with its build output); inside `unshare -m` the copies are bind-mounted over /repo and /verif, so the
check runs exactly the registered command (`python3 run.py check <ID> --tier quick`) against "/repo" with
the change applied, while the real /repo and /verif stay untouched (no evidence or replay file of the clean
tree is overwritten) and several changes can be examined in parallel.

  tools/par_mutants.py [-j N] SPEC...
     SPEC = <diff-file>[@CHECK[,CHECK..]][%CFG[,CFG..]]    e.g. /tmp/mut/C05/mutantA.diff@C05,C19%radix
            or seeded:<ID>-<X>[@..][%..]                    a change kept under /verif/seeded
  (%CFG restricts the configurations through VERIF_CONFIGS: a subset of the check's quick plan; a violation
   there is a violation of the full quick check, which runs a superset.)

Prints one JSON line per (spec, check) and a summary table.
"""
import concurrent.futures
import json
import os
import queue
import subprocess
import sys
import time

NS = os.environ.get("PAR_NS", "/tmp/ns")
VERIF = "/verif"
# source of the private /verif copies (a frozen copy lets /verif be edited while a batch runs)
VERIF_SRC = os.environ.get("PAR_VERIF_SRC", VERIF)


def sh(cmd, **kw):
    r = subprocess.run(cmd, shell=isinstance(cmd, str), stdout=subprocess.PIPE, stderr=subprocess.STDOUT, text=True, **kw)
    return r.returncode, r.stdout


def run_job(slot, spec):
    cfgs = None
    if "%" in spec:
        spec, c = spec.split("%", 1)
        cfgs = c
    checks = None
    if "@" in spec:
        spec, c = spec.split("@", 1)
        checks = c.split(",")
    if spec.startswith("seeded:"):
        key = spec.split(":", 1)[1]
        diff = os.path.join(VERIF, "seeded", key, "patch.diff")
        label = key
    else:
        diff = spec
        label = os.path.basename(os.path.dirname(diff)) + "/" + os.path.basename(diff)
    if checks is None:
        base = os.path.basename(os.path.dirname(diff)) if not spec.startswith("seeded:") else label
        checks = [base[:3]]
    root = os.path.join(NS, f"slot{slot}")
    os.makedirs(root, exist_ok=True)
    repo, verif = os.path.join(root, "repo"), os.path.join(root, "verif")
    rc, o = sh(["rsync", "-a", "--delete", "--exclude", "/target", "/repo/", repo + "/"])
    if rc != 0:
        return [{"spec": label, "error": "rsync repo: " + o[-300:]}]
    rc, o = sh(["rsync", "-a", "--delete", "--exclude", "/.git", "--exclude", "/.build/fuzzwork", "--exclude", "/.build/fztest", "--exclude", "/.build/t/fuzz_*", "--exclude", "/.build/t/miri*", VERIF_SRC + "/", verif + "/"])
    if rc not in (0, 24):  # 24 = files vanished while copying (a build is running in /verif/.build)
        return [{"spec": label, "error": "rsync verif: " + o[-300:]}]
    rc, o = sh(["git", "apply", diff], cwd=repo)
    if rc != 0:
        return [{"spec": label, "error": "patch does not apply: " + o[-300:]}]
    out = []
    for c in checks:
        t0 = time.time()
        env = dict(os.environ)
        if cfgs:
            env["VERIF_CONFIGS"] = cfgs
        inner = f"mount --bind {repo} /repo && mount --bind {verif} /verif && cd /verif && exec python3 run.py check {c} --tier quick"
        rc, o = sh(["unshare", "-m", "bash", "-c", inner], env=env, timeout=3 * 3600)
        viol = [l for l in o.splitlines() if l.startswith("VIOLATION")]
        msgs = [l.strip()[:400] for l in o.splitlines() if "violation [" in l][:2]
        tail = o.strip().splitlines()[-1][:300] if o.strip() else ""
        res = {"spec": label, "check": c, "configs": cfgs or "quick plan", "exit": rc, "violations": len(viol), "wall_s": round(time.time() - t0), "first": msgs, "tail": tail}
        print(json.dumps(res), flush=True)
        out.append(res)
    return out


def main():
    args = sys.argv[1:]
    jobs = 3
    if args and args[0] == "-j":
        jobs = int(args[1])
        args = args[2:]
    slots = queue.Queue()
    for i in range(jobs):
        slots.put(i)

    def work(spec):
        s = slots.get()
        try:
            return run_job(s, spec)
        except Exception as e:  # noqa
            return [{"spec": spec, "error": repr(e)}]
        finally:
            slots.put(s)

    results = []
    with concurrent.futures.ThreadPoolExecutor(max_workers=jobs) as ex:
        for r in ex.map(work, args):
            results += r
    print("\n== summary")
    for r in results:
        if "error" in r:
            print(f"{r['spec']:28} ERROR {r['error']}")
        else:
            print(f"{r['spec']:28} {r['check']} exit={r['exit']} violations={r['violations']} {r['wall_s']}s  {(r['first'] or [r['tail']])[0][:160]}")


if __name__ == "__main__":
    main()
