#!/usr/bin/env python3
"""Verify a seeded change produced by a sub-agent and run registered checks against it.

  tools/try_mutant.py verify <ID> <A|B>          # in the scratch worktree /tmp/mut/<ID>: applies, builds, pinned suite
                                                  # passes, demo fails with / passes without
  tools/try_mutant.py check  <ID> <A|B> [CHECK..] # apply to /repo, run `run.py check` for the listed checks (default: ID),
                                                  # always restore /repo afterwards
  tools/try_mutant.py seeded <ID>-<A|B> [CHECK..] # the same for a change kept under /verif/seeded
  tools/try_mutant.py keep   <ID> <A|B> <catching checks,comma> <needs...>   # copy into /verif/seeded/<ID>-<A|B>/
"""
import json
import os
import shutil
import subprocess
import sys
import time

MUT = os.environ.get("MUT_DIR", "/tmp/mut6")
VERIF = "/verif"


def sh(cmd, cwd=None, timeout=3600, env=None):
    r = subprocess.run(cmd, cwd=cwd, shell=isinstance(cmd, str), stdout=subprocess.PIPE, stderr=subprocess.STDOUT, text=True, timeout=timeout, env=env)
    return r.returncode, r.stdout


def demo_cmd(wt, which):
    d = os.path.join(wt, f"demo{which}")
    # prefer `cargo test` when there is a tests dir or #[test] in src
    has_test = os.path.isdir(os.path.join(d, "tests")) or "#[test]" in "".join(open(os.path.join(r, f)).read() for r, _, fs in os.walk(os.path.join(d, "src")) for f in fs if f.endswith(".rs"))
    has_main = os.path.exists(os.path.join(d, "src", "main.rs"))
    if has_main:
        return "cargo run --offline -q", d
    if has_test:
        return "cargo test --offline -q", d
    return "cargo run --offline -q", d


def verify(pid, which):
    wt = os.path.join(MUT, pid)
    diff = os.path.join(wt, f"mutant{which}.diff")
    out = {"id": pid, "which": which}
    rc, o = sh(["git", "status", "--porcelain", "--untracked-files=no"], cwd=wt)
    if o.strip():
        sh(["git", "checkout", "--", "."], cwd=wt)
    rc, o = sh(["git", "apply", "--check", diff], cwd=wt)
    out["applies"] = rc == 0
    if rc != 0:
        out["error"] = o[-500:]
        return out
    cmd, d = demo_cmd(wt, which)
    rc0, o0 = sh(cmd, cwd=d)
    out["demo_clean_passes"] = rc0 == 0
    sh(["git", "apply", diff], cwd=wt)
    try:
        rc1, o1 = sh(cmd, cwd=d)
        out["demo_mutant_fails"] = rc1 != 0
        out["demo_mutant_tail"] = o1[-400:]
        t0 = time.time()
        rc2, o2 = sh("cargo test --workspace --no-fail-fast --offline 2>&1 | grep -E '^test result|FAILED|failed' | awk '/test result/{p+=$4; f+=$6} /FAILED/{print} END {print \"passed\",p,\"failed\",f}'", cwd=wt)
        out["suite"] = o2.strip()[-300:]
        out["suite_passes"] = "failed 0" in o2 and "FAILED" not in o2
        out["suite_s"] = round(time.time() - t0)
    finally:
        sh(["git", "checkout", "--", "."], cwd=wt)
    return out


def check(pid, which, checks, diff=None):
    wt = os.path.join(MUT, pid)
    diff = diff or os.path.join(wt, f"mutant{which}.diff")
    rc, o = sh(["git", "status", "--porcelain", "--untracked-files=no"], cwd="/repo")
    if o.strip():
        return {"error": "/repo is dirty: " + o}
    rc, o = sh(["git", "apply", diff], cwd="/repo")
    if rc != 0:
        return {"error": "does not apply to /repo: " + o[-400:]}
    res = {}
    try:
        for c in checks:
            t0 = time.time()
            # keep the clean-tree evidence and replay directory: results against a seeded change are not evidence
            ev = os.path.join(VERIF, "evidence", f"{c}.json")
            saved = open(ev).read() if os.path.exists(ev) else None
            rp = os.path.join(VERIF, "replays", c)
            before = set(os.listdir(rp)) if os.path.isdir(rp) else set()
            env = dict(os.environ)
            rc, o = sh([sys.executable, os.path.join(VERIF, "run.py"), "check", c, "--tier", "quick"], cwd=VERIF, timeout=7200, env=env)
            viol = [l for l in o.splitlines() if l.startswith("VIOLATION")]
            msgs = [l.strip()[:300] for l in o.splitlines() if "violation [" in l][:3]
            res[c] = {"exit": rc, "violations": len(viol), "wall_s": round(time.time() - t0), "first": msgs}
            if saved is not None:
                open(ev, "w").write(saved)
            if os.path.isdir(rp):
                for n in set(os.listdir(rp)) - before:
                    os.remove(os.path.join(rp, n))
    finally:
        sh(["git", "checkout", "--", "."], cwd="/repo")
    return res


def keep(pid, which, catching, needs):
    wt = os.path.join(MUT, pid)
    dst = os.path.join(VERIF, "seeded", f"{pid}-{which}")
    os.makedirs(dst, exist_ok=True)
    shutil.copy(os.path.join(wt, f"mutant{which}.diff"), os.path.join(dst, "patch.diff"))
    if os.path.exists(os.path.join(wt, f"mutant{which}.md")):
        shutil.copy(os.path.join(wt, f"mutant{which}.md"), os.path.join(dst, "description.md"))
    demo = os.path.join(wt, f"demo{which}")
    if os.path.isdir(demo):
        d2 = os.path.join(dst, "demo")
        if os.path.exists(d2):
            shutil.rmtree(d2)
        shutil.copytree(demo, d2, ignore=shutil.ignore_patterns("target", "Cargo.lock"))
    meta = {
        "property": pid,
        "mutant": which,
        "needs_to_manifest": needs,
        "verified": "applies to /repo HEAD; compiles; pinned suite passes with the change; demo fails with / passes without (tools/try_mutant.py verify)",
        "caught_by_quick_checks": [c for c in catching.split(",") if c],
        "note": "demo/Cargo.toml paths are relative to a checkout of the repository (../lexical-core etc.)",
    }
    json.dump(meta, open(os.path.join(dst, "meta.json"), "w"), indent=1)
    return meta


if __name__ == "__main__":
    cmd = sys.argv[1]
    if cmd == "verify":
        print(json.dumps(verify(sys.argv[2], sys.argv[3]), indent=1))
    elif cmd == "check":
        print(json.dumps(check(sys.argv[2], sys.argv[3], sys.argv[4:] or [sys.argv[2]]), indent=1))
    elif cmd == "seeded":
        # tools/try_mutant.py seeded C15-B [CHECK..]: run checks against a kept change in /verif/seeded
        key = sys.argv[2]
        print(json.dumps(check(key.split("-")[0], key.split("-")[1], sys.argv[3:] or [key.split("-")[0]], diff=os.path.join(VERIF, "seeded", key, "patch.diff")), indent=1))
    elif cmd == "keep":
        print(json.dumps(keep(sys.argv[2], sys.argv[3], sys.argv[4], " ".join(sys.argv[5:])), indent=1))
