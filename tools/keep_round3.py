#!/usr/bin/env python3
"""Bookkeeping for round 3 of the seeded changes: copies the verified changes from the scratch worktrees
(/tmp/mut/<ID>/mutant{A,B}.*, demo{A,B}) into /verif/seeded/<ID>-{E,F}/ and rewrites seeded/INDEX.md from all meta.json
files. Verification and check runs were done with tools/try_mutant.py verify and tools/par_mutants.py."""
import json
import os
import shutil

MUT = "/tmp/mut"
SEEDED = "/verif/seeded"

# key -> (worktree letter, change, needs, caught by quick checks, strengthening note)
T3 = {
 "C01-E": ("A", "shared::round: the carry test after rounding up can never be true (mant > carry_mask)", "a value in the last half-ulp below a power of two that goes through shared::round: default builds only via the big-integer slow path (> 19 digits), compact builds any non-fast-path input; 2^1024 - 2^970 gives 2^1023 instead of inf", ["C01"], ""),
 "C01-F": ("B", "parse_number accumulates the exponent with saturating_mul/saturating_add; the later `exponent += explicit_exponent` overflows", "exponent magnitude >= 2^63 (20+ digits) with two or more fraction digits (negative) or more than 19 integer digits (positive): `1.25e-9223372036854775807` -> inf", ["C01"], ""),
 "C02-E": ("A", "f64 remove_trailing_zeros: the divisible-by-10^8 test loses `low < magic_number`", "non-compact; f64; shortest digits d.ddddddd00000001 lose 8 digits; decimal significands below 10^8 (e.g. subnormals such as 1e-323) never return", ["C02"], "first run: the writer never returns for 1e-323, the check hung (no watchdog in the proptest drivers); the drivers now monitor stalled cases, re-execute a stalled case alone in a fresh process (60 s, twice) and report a confirmed hang as a violation with a replay file"),
 "C02-F": ("B", "compute_nearest_normal steps off an integral right endpoint even when the interval includes it", "non-compact; even significand, value + ulp/2 a round decimal: integer-valued floats >= 2^54 (f64) / 2^25 (f32); output round-trips but is not shortest", ["C02"], ""),
 "C03-E": ("A", "usize decimal writer routed through the 19-digit signed writer", "usize (not u64) >= 10^19, decimal, non-compact: panic instead of the numeral", ["C03"], ""),
 "C03-F": ("B", "write_mantissa_signed passes the exponent radix", "power-of-two / radix; a signed type; a format whose exponent radix differs from the mantissa radix (hex mantissa, decimal exponent): 255i32 -> \"255\" instead of \"FF\"", ["C03"], ""),
 "C04-E": ("A", "algorithm!: emptiness after the sign tested on the raw input instead of the iterator", "input exactly \"+\" (all types) or \"-\" (signed): Ok(0) instead of Empty(1)", ["C04"], ""),
 "C04-F": ("B", "fmt_invalid_digit! drops the `base_suffix != 0` guard", "feature format; a NUL byte directly after a digit in a format without base suffix: `12\\0` -> Ok(12)", ["C04"], ""),
 "C05-E": ("A", "Bellerophon error_is_accurate: `fp.exp <= -mantissa_shift` -> `<`", "feature radix, non-power-of-two radix; values in the largest subnormal binade within the error bound of a midpoint", ["C05"], ""),
 "C05-F": ("B", "disguised fast path multiplies with wrapping_mul", "f64; short mantissa, exponent in the disguised window, mantissa * base^shift >= 2^64 wrapping to <= 2^53: hex `1000^10c` -> 0.0 instead of inf", ["C05"], ""),
 "C06-E": ("A", "calculate_shl: `exp % bits_per_digit` -> `exp & (bits_per_digit - 1)`", "radix 8 or 32 (3 / 5 bits per digit); values >= 2^53 (f64) / 2^24 (f32)", ["C06"], ""),
 "C06-F": ("B", "write_exponent_signed spells the exponent digits in the exponent base instead of the exponent radix", "formats with exponent base != exponent radix (hex floats 16/2/10, 16/16/10), exponent notation, |exponent| >= min(base, radix)", ["C06"], ""),
 "C07-E": ("A", "generic-radix writer: zero-fill loop of the integer digits runs one step too far", "feature radix; integers in the top binade [2^52, 2^53) / [2^23, 2^24) that are not multiples of the radix: last digit written as 0 (error below 64 ulp)", ["C07"], ""),
 "C07-F": ("B", "shared::round_up increments the ASCII character", "feature radix; radix 11-36; max_significant_digits set; a round-up into a digit 9 gives ':'", ["C07", "C14"], "missed by C07 at first (its options were exponent breaks only, as in the quantifier; C14 reported it): C06/C07 cases now carry an optional max_significant_digits, under which the well-formedness and acceptance clauses are still judged"),
 "C08-E": ("A", "the same change as C02-E, found independently by the C08 author", "see C02-E: `1.000000000000001` is written as `1.0`; small decimal significands never return", ["C08", "C02"], "as C02-E (confirmed hang reported as a violation)"),
 "C08-F": ("B", "algorithm_u128 writes the middle digit group without zero padding", "power-of-two or radix without compact; u128/i128; non-decimal radix; magnitude >= 2^64 * radix^step whose middle group starts with a zero digit", ["C08"], ""),
 "C09-E": ("A", "FORMATTED_SIZE of isize/usize for non-decimal radices 128 -> 64", "power-of-two or radix; isize::MIN in radix 2 needs 65 bytes; exact-size buffer or the allocating facade", ["C09"], ""),
 "C09-F": ("B", "u128 digit_count fallback: one division and a truncating cast to u64", "feature radix without compact; u128/i128; non-decimal non-power-of-two radix; magnitude >= 2^64 * radix^k: digits written in front of the caller's slice", ["C09"], ""),
 "C10-E": ("A", "integral_binary_factor(17) 5 -> 4", "feature radix; radix 17; f64; > 15 digits near a midpoint with a non-negative exponent: large_quorem assertion panics", ["C10", "C05"], "the first run was lost to an infrastructure error and the change was only examined after round 4: C05 reported it at once (PANIC large_quorem for radix 17), C10 was silent - 250 generated cases per job and few unmutated numbers; float parsers of the core group now get 20 000 generated cases per job with a share of unmutated valid numbers, and the binade sweep"),
 "C10-F": ("B", "take_n slices unchecked and overflow_digits is computed before zeros / base prefix are skipped", "format + power-of-two; integer formats with a base prefix; input longer than overflow_digits before the prefix is skipped: reads past the input, count > length", ["C10"], ""),
 "C11-E": ("A", "parse_complete only enters the slow path when digits were truncated", "compact (decimal) or radix (non-power-of-two radix); <= 19 digits on or next to a midpoint: complete differs from partial (`9007199254740993` -> garbage)", ["C11"], ""),
 "C11-F": ("B", "char_is_digit_const accepts the symbol whose digit value equals the radix", "feature format; internal-only separators; digit, separator, then exactly ':' (radix 10) / 'G' (radix 16): partial consumes the separator, complete rejects the prefix", ["C11"], "missed at first: no generator produced the byte next to the digit range; gen::boundary_bytes (value == radix symbol, / : @ [ ` {, high-bit digits) now feed the C11 tails and mutations, the C12/C11 alphabets and the C13 junk byte"),
 "C12-E": ("A", "parse_sign! loses the arm for an input that ends where a required sign must stand", "feature format; required_exponent_sign with optional exponent digits and input ending at the exponent character (`1e` -> 1.0), or required_mantissa_sign with optional digits and empty input", ["C12"], ""),
 "C12-F": ("B", "fmt_invalid_digit! accepts a base suffix at the end of the overflow-free block", "format + power-of-two; integer format with base suffix; the letter at offset 2*size_of::<T>() - signed - 1 followed by more bytes: u8 `1h5` -> 15, i32 needs 6 digits before the letter", ["C12"], "missed at first: suffix formats were compiled for i32/u64 only and enumerated to length 4; the plain prefix/suffix layouts now have all 12 integer types and C12 gained the generated:structured-long stream (1-45 digits with structural bytes inserted anywhere)"),
 "C13-E": ("A", "round_up_nonzero! walks the raw bytes of the truncated tail", "feature format; > 769 (f64) / 114 (f32) digits, exact tie, all truncated digits zero, a separator inside that tail: rounded up by one ulp", ["C13"], ""),
 "C13-F": ("B", "ExponentDigitsIterator reads the fraction's digit counter", "feature format; exponent separator modes without leading (I, IT, IC, ITC) or without internal (L, LT, LC, LTC); separator right after the exponent character; at least one fraction digit", ["C13"], ""),
 "C14-E": ("A", "positive exponent break compared with >= (default moved to 10)", "an explicitly configured positive_exponent_break and a value whose exponent equals it", ["C14"], ""),
 "C14-F": ("B", "compact writer drops the carry of truncate_and_round_decimal", "feature compact; Round; max_significant_digits n; digits starting with n nines that round up: 9.99 at 2 digits -> 1.0", ["C14"], ""),
 "C15-E": ("A", "starts_with_uncased masks the XOR with 0x5F", "an input byte equal to a special-string letter (either case) with the high bit set: `\\xEEan` -> NaN", ["C15"], ""),
 "C15-F": ("B", "write_float uses is_sign_negative instead of needs_negative_sign", "a NaN with the sign bit set is written as `-NaN`", ["C15"], ""),
 "C16-E": ("A", "compact int_pow_fast_path takes the power in 32 bits", "feature compact; f64 with a few digits and decimal exponent 32..=37, or the slow path", ["C16"], ""),
 "C16-F": ("B", "invalid_digit_partial! passes `$count - 1`", "feature format; integer parse_partial; first byte neither digit nor accepted sign: Err(Empty(0)) instead of Ok((0, 0))", ["C16"], ""),
 "C17-E": ("A", "lexical::parse_partial_with_options forwards the STANDARD format", "a non-standard FORMAT through the facade's partial entry point", ["C17"], ""),
 "C17-F": ("B", "is_valid_ascii = !is_ascii_control (accepts 0x80..0xFF)", "a decimal point or exponent byte >= 0x80 in write options: output is not ASCII / the facade String not UTF-8", ["C17"], ""),
 "C18-E": ("A", "is_valid_radix (power-of-two branch) accepts radix 1", "feature power-of-two without radix; a radix field equal to 1", ["C18"], ""),
 "C18-F": ("B", "integer parse_partial_with_options validates only the radix of the format", "an otherwise invalid format (contradictory flags, digit separator that is a digit, lone consecutive flag) through the integer partial parser", ["C18"], ""),
 "C19-E": ("A", "Eisel-Lemire compute_float skips the rounding-carry fix-up when lossy", "lossy; decimal; value within half an ulp below a power of two: result half the correct value, MAX+ instead of inf", ["C19"], ""),
 "C19-F": ("B", "lossy lemire returns compute_error's unrounded significand for truncated mantissas", "lossy; decimal; > 19 digits within ~1e-19 of a midpoint: garbage with wrong sign and magnitude", ["C19"], ""),
}


T4 = {
 "C01-G": ("A", "disguised fast path multiplies with wrapping_mul (the edit of C05-F, found independently for the decimal property)", "f64; few digits, decimal exponent 23..=37, digits * 10^(exp-22) >= 2^64 wrapping to <= 2^53: `562949953421312e37` -> 0.0", ["C01"], ""),
 "C01-H": ("B", "slow::parse_mantissa drops the fraction's sticky digit once the integer digits alone fill max_digits", "770+ (f64) / 115+ (f32) integer digits that are an exact tie followed by zeros, a non-zero fraction digit and a large negative exponent", ["C01"], ""),
 "C02-G": ("A", "Grisu round_digit guard `delta - rem >= kappa` -> `rem < delta`", "feature compact; 45 of the 2046 f64 powers of two (3 f32): the output reads back as the float below", ["C02"], ""),
 "C02-H": ("B", "jeaiii nine-digit arm: multiplier 1441151882 -> 1441151881", "non-compact; a nine-digit group in [100000015, 138951963] (14% of the band): f32 output not closest, f64 with a nine-digit shortest form does not round-trip, integers off by one", ["C02"], ""),
 "C03-G": ("A", "digit_count @naive: the 4-digit fast path also for 16-bit types (radix^4 truncates)", "feature radix without compact; u16/i16; radix 17..=36 except 32; magnitude >= radix^4 mod 65536: returned slice 1-2 bytes too long", ["C03"], ""),
 "C03-H": ("B", "api::unsigned: the '+' of required_mantissa_sign is not counted in the returned length", "feature format; required_mantissa_sign; unsigned types: 123u32 -> `+12`", ["C03"], ""),
 "C04-G": ("A", "parse_1digit_checked!: the multiply step reports Overflow also for negative numbers", "a signed type and a '-' input so far below MIN that the multiplication overflows (`-130` for i8; `-129` is still right): Overflow(i) instead of Underflow(i)", ["C04"], ""),
 "C04-H": ("B", "parse_digits_unchecked!: the first 8-digit block is added even when the number is negative", "no_multi_digit(false); i64/isize/i128; '-' followed by at least 8 digits: `-12345678` -> 12345678", ["C04"], ""),
 "C05-G": ("A", "Bellerophon: the two underflow checks folded into one early return", "feature radix, non-power-of-two radix; a value within about 2^-60 (relative) above half the smallest subnormal: +0.0 instead of the smallest subnormal", ["C05"], ""),
 "C05-H": ("B", "compact int_pow_fast_path takes the power in 32 bits (the edit of C16-E, found independently for the radix property)", "features compact + radix; radix^n >= 2^32 in the disguised fast path or the slow path", ["C05"], ""),
 "C06-G": ("A", "binary write_float_scientific: the '0' of `D.0` is not stored", "power-of-two radices, same base, exponent notation, a one-digit mantissa (the smallest subnormals): the third byte is whatever the buffer held", ["C06"], ""),
 "C06-H": ("B", "hex write_float: scientific exponent computed from MANTISSA_SIZE instead of the actual bit count", "mixed-base formats (16/2, 8/2, 32/2, 4/2, 16/4); subnormals: exponent up to 52 (f64) / 23 (f32) binary orders too large", ["C06"], ""),
 "C07-G": ("A", "generic-radix write_float_scientific pads to min_significant_digits after trim_floats removed the point", "feature radix; trim_floats with min_significant_digits >= 2; exponent notation; a value with one significant digit: 3^20 -> `10000e202`", ["C07", "C14"], "missed by C07 at first (C14 reported it): the option sweep of C07 had no min_significant_digits; C06/C07 cases now carry an optional min_significant_digits under which every clause is judged (padding never changes the value)"),
 "C07-H": ("B", "generic-radix truncate_and_round: the second `max_digits >= digit_count` return removed (max_digits is shadowed to include leading zeros)", "feature radix; max_significant_digits M with S < M < S + z for a value below 1/radix written positionally (S significant digits, z leading zeros): NUL bytes in the output", ["C07", "C14"], ""),
 "C08-G": ("A", "the same edit as C02-H (jeaiii nine-digit multiplier), found independently by the C08 author", "see C02-H: u32 100000015 -> `100000014`, f64 1.00000015 -> `1.00000014`", ["C08"], ""),
 "C08-H": ("B", "write_float writes the required '+' only for sign-positive values", "feature format; required_mantissa_sign; a NaN with the sign bit set is written without any sign and the parser answers MissingSign", ["C08"], ""),
 "C09-G": ("A", "the same edit as C03-E (usize decimal through the 19-digit signed writer), found independently by the C09 author", "usize >= 10^19: panic with any buffer", ["C09"], ""),
 "C09-H": ("B", "copy_to_dst: debug_assert + ptr::copy_nonoverlapping instead of the checked slice copy", "feature compact; any integer type; a buffer shorter than the digits; no debug assertions: the digits are written behind the caller's slice before the panic", ["C09"], ""),
 "C10-G": ("A", "BIGFLOAT_BITS 1200 -> 1075 + 64 (one limb fewer)", "feature radix; odd mantissa radix; f64 below about 2^-1000; long digits at a midpoint: `shl_limbs(..).unwrap()` panics", ["C10"], ""),
 "C10-H": ("B", "parse_number: the fraction slice length is measured from the start of the number", "feature format; a format whose fraction accepts digit separators; floats with a '.': debug assertion, in release the slow paths read the bytes behind the input", ["C10"], ""),
 "C11-G": ("A", "FractionDigitsIterator judges the neighbours of a separator in the exponent radix", "format + power-of-two; mantissa radix != exponent radix; fraction separators: partial `1.7_9` (octal mantissa, decimal exponent) consumes the separator", ["C11"], "missed by C11 with the catalogue of 796 formats (C13 reported the same edit, C13-H, through SEP_R16B2E10_ALL_*): C11's relation needs a separator followed by a byte that is an exponent digit but not a mantissa digit; formats with separators in every component and a mantissa radix below the exponent radix and the largest exponent digit in the alphabets were added"),
 "C11-H": ("B", "parse_partial: the early return for an input that is empty after the sign tests REQUIRED_DIGITS", "feature format; a float format with optional mantissa digits; `\"\"`, `+`, `-`: complete Ok(-0.0), partial Err(Empty)", ["C11"], ""),
 "C12-G": ("A", "shared::starts_with advances the input iterator once more when the special string ends first", "feature format; case_sensitive_special; a special string in exact case followed by exactly one byte: `infx` -> inf", ["C12"], ""),
 "C13-G": ("A", "is_it! @internal: a separator with no byte after it is no longer skipped", "feature format; a component with exactly internal+trailing separators: a trailing separator that ends the input is rejected; component-final separators are taken for digits in the slow path", ["C13"], ""),
 "C13-H": ("B", "the same edit as C11-G, found independently by the C13 author", "see C11-G: hex float `1.8_ap3` rejected under internal fraction separators", ["C13"], ""),
 "C14-G": ("A", "hex write_float: the zero special case of the scientific exponent removed", "power-of-two; mixed-base formats; the value +-0.0 is written as `0.0p-1076`", ["C14"], "missed at first: C14 generated no zeros and returned early for them; zero is now generated and judged (denotes zero, sign, exponent notation exactly when the format requires it - sound also under the reading that breaks are ignored for mixed bases)"),
 "C14-H": ("B", "generic-radix truncate_and_round: the Truncate early return moved above the leading-zero adjustment", "feature radix; Truncate; max_significant_digits; a magnitude below 1 written positionally: radix 12 0.375 at 2 digits -> `0.4`", ["C14"], ""),
 "C15-G": ("A", "no_special is only checked by the complete parser", "feature format; no_special; parse_partial on `-inf`, `NaN`", ["C15"], ""),
 "C15-H": ("B", "Float::is_nan requires the quiet bit", "writing a signalling NaN: `inf` / `-inf` instead of `NaN`", ["C15"], ""),
 "C16-G": ("A", "float buffer_size_const uses FORMATTED_SIZE for every radix", "power-of-two or radix builds: `write(1.5f64, &mut [0u8; 64])` panics (FORMATTED_SIZE is 256 there)", ["C16"], ""),
 "C16-H": ("B", "get_large_int_power pairs LARGE_POW5 with the step of LARGE_POW3", "feature radix without compact; f64; the big-integer slow path with a decimal scale of at least 200", ["C16"], ""),
 "C17-G": ("A", "i128::FORMATTED_SIZE_DECIMAL 40 -> 39", "negative i128 through lexical::to_string (or an exactly sized core buffer): panic", ["C17"], "missed at first by C17 (C03 and C09 write into exactly sized buffers and report it): the reference call of the default-API comparison used the same constant, so both sides panicked alike; it now writes into a generous buffer and a panic of the default API on either side is a difference"),
 "C17-H": ("B", "float buffer_size_const: max!(min_exp, max_exp).unsigned_abs()", "f64; negative_exponent_break <= -44 with a smaller positive break; values between 10^break and about 1e-43: the facade allocates 64 bytes and the writer panics", ["C17"], ""),
 "C18-G": ("A", "not_feature_format::format_error_impl masks the flags with INTERFACE_FLAG_MASK", "builds without feature format: a packed format with one of nine non-interface flag bits is reported valid and parsed with", ["C18"], ""),
 "C18-H": ("B", "parse-float OptionsBuilder::build checks the length of inf_string where infinity_string is meant", "an infinity_string of 51+ letters: build() is Ok / build_strict() returns while is_valid() is false", ["C18"], ""),
 "C19-G": ("A", "lossy moderate_path short-circuits with the decimal exponent limits", "lossy; radix 2-9 or exponent base 2/4; exponent beyond the decimal limits in radix units: radix 2 `1e-10000110010` -> 0.0", ["C19"], ""),
 "C19-H": ("B", "calculate_power2 scales by the mantissa radix instead of the exponent base", "mixed-base formats; inputs that miss the fast path (14+ hex digits, large exponents); lossy and exact alike", ["C19"], ""),
}

T5 = {
 "C01-I": ("A", "get_large_int_power pairs LARGE_POW5 with the step of LARGE_POW25", "feature radix without compact; decimal input on the big-integer slow path with a power-of-ten scale of 65 or more: `2.037035976334486312425e90` off by 49 orders of magnitude", ["C01"], ""),
 "C01-J": ("B", "Bellerophon error_is_accurate `<=` -> `<` (the edit of C05-E, here for decimal input in compact builds)", "feature compact; results in the largest subnormal binade within ~0.01 ulp of a midpoint", ["C01"], ""),
 "C02-I": ("A", "one transposed digit in the u32 fast_digit_count table (entry for floor(log2 x) == 23)", "non-compact; f32 whose shortest digits are 9955000..9999999: the point / exponent is off by one (9.999999 -> 99.99999)", ["C02"], ""),
 "C02-J": ("B", "Grisu normalized_boundaries called with f32 for every type", "feature compact; f64 exact powers of two (254 of 2046): output reads back as the predecessor", ["C02"], ""),
 "C03-I": ("A", "digit_log8: division by 3 replaced by a multiply-shift that is only exact up to log2 = 31", "power-of-two / radix without compact; radix 8; 64/128-bit types; magnitude >= 2^32 with particular bit lengths: one stale byte in front, length one too large", ["C03"], ""),
 "C03-J": ("B", "u128_divrem_5 given the constants of u128_divrem_25", "feature radix without compact; radix 5; u128/i128 above u64::MAX: a surplus 0 per 27-digit chunk", ["C03"], ""),
 "C04-I": ("A", "skip.rs take_n returns a sub-iterator that starts at index 0", "feature format; an explicit sign, more bytes than overflow_digits, first non-digit inside that window: error index / partial count too small by the sign", ["C04"], ""),
 "C04-J": ("B", "parse_digits_checked!: take_n(start_index + overflow_digits)", "an explicit sign and more digits than overflow_digits: one more digit is accumulated with wrapping arithmetic (`+256` as u8 -> Ok(0))", ["C04"], ""),
 "C05-I": ("A", "f32_max_digits(34) 127 -> 117", "feature radix; radix 34; f32; exact midpoints of floats below about 2^-115 (121-126 digits)", ["C05"], ""),
 "C05-J": ("B", "BASE12_LOG2_MULT / SHIFT replaced by the 16-bit form", "feature radix; radix 12; parsed exponent in [-306, -298]: f64 result half its correct value", ["C05"], ""),
 "C06-I": ("A", "step.rs min_step_32 (u64) 12 -> 13", "radix 32; positional output of values >= 2^59 with leading digit G..V: re-parsing wraps the 13-digit mantissa", ["C06"], ""),
 "C06-J": ("B", "f32_exponent_limit(4) (-63, 63) -> (-64, 63)", "feature radix; f32; exponent base 4; exponent minus fraction digits exactly -64: 0.0 (release) / debug assertion", ["C06"], ""),
 "C07-I": ("A", "no-std libm floord / floorf: the 'already an integer' thresholds off by one", "library built without `std`; f64; generic radix; odd integers x in [2^52, 2^53) with x % 4 == 1: a fraction character for the value `radix` itself", ["C07"], "run after `radix+nostd` had been added to the C07 quick plan (the property's checks had never built a no-std radix configuration)"),
 "C07-J": ("B", "write_digits: the two digit pairs of the 4-digit loop are written in swapped order", "non-compact; exponent digits in radix 3 with |exp| >= 81 (and every non-decimal integer >= radix^4)", ["C07"], ""),
 "C08-I": ("A", "format_flags::exponent_radix falls back to the exponent base when unset", "power-of-two / radix; mixed-base format without an explicit exponent radix; exponent notation: the writer spells the exponent in the mantissa radix, the parser reads it in the base", ["C08", "C05", "C06"], "missed at first: every mixed-base format of the catalogue set the exponent radix explicitly; five `MIX*_EUNSET` formats were added (catalogue 809)"),
 "C08-J": ("B", "two hex digits transposed in the 5^33 row of the f32 Dragonbox table", "non-compact; f32 in [2^-83, 2^-79): wrong digits that parse back to another float", ["C08"], ""),
 "C09-I": ("A", "step.rs min_step_8 (u64) 21 -> 22", "power-of-two / radix without compact; radix 8; u128/i128 in [2^64, 2^127): one byte written in front of the caller's slice", ["C09"], ""),
 "C09-J": ("B", "integer buffer_size_const no longer reserves the byte of a required '+'", "feature format without power-of-two; required_mantissa_sign; unsigned types: the documented bound is one byte short", ["C09"], "run after `format` had been added to the C09 quick plan (the change is invisible when power-of-two makes FORMATTED_SIZE 128)"),
 "C10-I": ("A", "Eisel-Lemire compute_float: subnormal guard `>= 64` -> `> 64` (a 64-bit shift by 64)", "decimal, non-compact; a short mantissa in exactly one binade far below the subnormals (f32 [2^-190, 2^-189), f64 [2^-1086, 2^-1085)): overflow-check panic in debug builds, a wrong large value in release", ["C10", "C01"], "missed by C10 at first (C01 reported the release-mode value): no generator placed short mantissas in binades far outside the range; binade sweeps (every binade from 300-400 below the smallest subnormal to 300-400 above the largest value x significands of 1-40 digits) were added to C01, C05, C19 and C10"),
 "C10-J": ("B", "f32_exponent_limit(9) (-7, 7) -> (-8, 7)", "feature radix without compact; radix 9; f32; fast path with exponent exactly -8: index out of bounds panic", ["C10"], ""),
 "C11-I": ("A", "algorithm!: the negative, cannot-overflow branch passes is_end = false", "format + power-of-two; base suffix; signed type; short negative input ending in the suffix: complete rejects what partial accepted", ["C11"], ""),
 "C11-J": ("B", "float parse_partial_with_options parses with the STANDARD format", "any non-standard format through the float partial entry point", ["C11"], ""),
 "C12-I": ("A", "uncased byte comparison by xor: (c ^ value) & !0x20 == 0", "a non-letter exponent character / base prefix / suffix (`^` is the default for radix >= 15) with the case-sensitive flag off: the byte differing in bit 5 (`~` for `^`) is accepted", ["C12"], "pre-empted: the alphabet gained the xor-0x20 neighbours of non-letter punctuation after the author's summary was read; before that only letters had their other case in the alphabet"),
 "C12-J": ("B", "is_special_eq also tries the uncased comparison when the case-sensitive one failed, on an advanced cursor", "feature format; case_sensitive_special; partial special prefix + one mismatching byte + any-case special: `nNaN`, `xinf`", ["C12"], ""),
 "C13-I": ("A", "slow::parse_mantissa re-reads the fraction with the integer iterator", "feature format; fraction separator flags differ from the integer's; slow path; a separator in the fraction is taken for a digit", ["C13"], ""),
 "C13-J": ("B", "DigitsIter::read_if_value_cased reads the raw byte (does not skip separators)", "feature format; > 19 digits with a separator inside the leading zeros; a separator in front of a base prefix", ["C13"], ""),
 "C14-I": ("A", "decimal write_float_scientific decides 'one digit, trim .0' before rounding", "non-compact; trim_floats + max_significant_digits; exponent notation; rounding collapses the mantissa to one digit: `1.0e21` instead of `1e21`", ["C14"], "missed at first: the trim clause did not judge exponent notation at all; it now demands that a one-digit integral mantissa loses its `.0` there too, and the recorded finding `c14_decimal_trim_not_applied_after_rounding` was narrowed to its real shape (rounding *without carry* leaves zeros inside the digit budget)"),
 "C14-J": ("B", "binary write_float_scientific pads to min_significant_digits only when exact_count > cursor", "power-of-two radices, same base, exponent notation, min_significant_digits = digits + 1: one digit short", ["C14"], ""),
 "C15-I": ("A", "the same edit as C12-G (case-sensitive starts_with consumes one byte too many), found independently", "feature format; case_sensitive_special; special string + one byte: `NaN1` -> NaN", ["C15"], ""),
 "C15-J": ("B", "write_nan no longer adds the sign byte already written", "feature format; required_mantissa_sign; NaN is written as `+Na`", ["C15"], ""),
 "C16-I": ("A", "the edit of C01-J / C05-E under the feature-additivity property", "feature compact only: value bits differ by one ulp for near-midpoint inputs in the largest subnormal binade", ["C16"], ""),
 "C16-J": ("B", "split_radix (power-of-two without radix) loses its row for 5", "power-of-two without radix; decimal slow path with a negative exponent: always rounds up", ["C16"], ""),
 "C17-I": ("A", "is_valid_letter_slice checks two bytes per iteration and skips the last byte of an odd-length slice", "an odd-length nan/inf string whose last byte is not a letter: accepted, the facade String is not UTF-8", ["C17"], ""),
 "C17-J": ("B", "write_integer_signed forwards to write_integer in the power-of-two, non-compact variant", "power-of-two / radix without compact; negative i64/isize through the facade (exact 20-byte buffer): panic", ["C17"], ""),
 "C18-I": ("A", "is_valid_punctuation no longer compares the digit separator with the base suffix", "format + power-of-two; separator == suffix: the format is reported valid and parsed with", ["C18"], ""),
 "C18-J": ("B", "write-float inf_str_is_valid rejects exactly 50 bytes", "an inf_string of exactly 50 letters: is_valid() false, build() Ok", ["C18"], ""),
 "C19-I": ("A", "step.rs min_step_34 (u64) 12 -> 11", "feature radix; radix 34; f64; lossy; >= 12 significant digits: 3-4 ulp low", ["C19"], ""),
 "C19-J": ("B", "the edit of C15-B (round: `>= INFINITE_POWER` -> `>`), found independently", "compact (decimal) or radix: values in [2^1024, 2^1025) parse to NaN, lossy and exact alike", ["C19"], ""),
}

T6 = {
 "C01-K": ("A", "one of the masks in the crate's own libm powf (0xfffff000 -> 0xffffff00)", "a compact build without `std`; f32; fast-path inputs whose power of ten is 10^9 or 10^10: `1e9` one ulp high", ["C01", "C16"], "C16 reported it at first (compact+nostd had just joined its quick plan); C01's own plan gained `compact+nostd`"),
 "C01-L": ("B", "split_radix(10) = (5, 2) in the power-of-two-without-radix variant (20^k instead of 10^k)", "power-of-two without radix; decimal input on the big-integer slow path with a positive residual exponent", ["C01", "C16"], "C16 reported it at first; C01's own quick plan gained `pow2` (the cfg(all(power-of-two, not(radix))) copies of tables are a configuration of their own)"),
 "C02-K": ("A", "f32 compute_mul_parity loses its `as u32` truncation (the integer flag is always false)", "non-compact; f32; even-mantissa integers in [2^25, 2^30) whose lower midpoint is a round decimal: one or two digits too many (round trip intact)", ["C02"], ""),
 "C02-L": ("B", "the radix build passes the signed `self` instead of the absolute value to the decimal back-end", "feature radix with debug assertions: every negative finite float panics; invisible in release", ["C02", "C09"], "C09 (radix+format:checked) reported it at first; the value checks of the writers (C02, C03, C06, C07, C14, C15) now also run in checked-profile builds that exist anyway"),
 "C03-K": ("A", "step.rs min_step_14 (u64) 16 -> 17", "feature radix without compact; radix 14; u128/i128 above u64::MAX: a spurious 0 per chunk", ["C03"], ""),
 "C03-L": ("B", "moderate_u128_divrem subtracts the low halves unchecked", "overflow-checked builds; feature radix; 12 radices using the moderate path; u128/i128 above u64::MAX whose low halves borrow: panic", ["C03", "C09"], "as C02-L (C09 at first; C03 gained radix+format:checked)"),
 "C04-K": ("A", "is_valid_radix (power-of-two branch) excludes 32", "power-of-two without radix; radix 32: every parse returns InvalidMantissaRadix", ["C04", "C18"], "C18 reported it at first. C04 would have *skipped* the format (its job list takes the formats the library calls valid): every check now reports a compiled format that is valid by the documented rules but rejected by the library"),
 "C04-L": ("B", "Number::IS_SIGNED true for usize", "usize with a leading '-': `-1` -> Ok(usize::MAX)", ["C04"], ""),
 "C05-K": ("A", "min_step / max_step crossed for radix 8 in the power-of-two-without-radix block", "power-of-two without radix; radix 8; 22+ significant digits with leading digit 2-7: the top bits are dropped", ["C05"], ""),
 "C05-L": ("B", "slow_binary no longer skips the leading zeros of the integer part", "power-of-two radices; more digits than fit 64 bits on a midpoint; at least one leading 0 (also the plain `0.`)", ["C05"], ""),
 "C06-K": ("A", "binary positional writer takes bits-per-digit from the exponent base", "mixed-base formats; positional notation; |x| >= 1: hex `2.0` -> `10.0`", ["C06"], ""),
 "C06-L": ("B", "`(mantissa_bits - 1) as i32` on a usize that is 0 for zero", "overflow-checked builds; power-of-two same-base formats; +-0.0 panics", ["C06", "C09"], "as C02-L (C09 pow2:checked at first; C06 gained pow2:checked)"),
 "C07-K": ("A", "write_exponent writes magnitudes below 10 directly as '0' + exp", "radix 3, 5, 6, 7, 9; exponent notation with radix <= |exp| <= 9: a character outside the radix alphabet", ["C07"], ""),
 "C07-L": ("B", "table_radix::get_table: 35 => the radix-36 table", "feature radix without compact; radix 35; exponents of magnitude >= 35 (f64 beyond 1e54 / below 3e-53)", ["C07"], ""),
 "C08-K": ("A", "hex scale_sci_exp divides before multiplying", "power-of-two; mantissa radix 16 with exponent base 4; odd hex-digit exponents: 16 times off", ["C08"], ""),
 "C08-L": ("B", "Grisu normalized_boundaries compares with the f64 hidden bit for every type (cf. C16-C)", "feature compact; f32; 23 powers of two read back as the predecessor", ["C08", "C02"], "C08's quick plan had no compact build (C02 reports the same edit); `compact` added"),
 "C09-K": ("A", "no-std libm floorf without the `e >= 23` early return (shift by >= 32)", "no-std; feature radix; generic radix; f32 >= 2^32: overflow-check panic in debug, wrong digits in release", ["C07"], "reported by C07 (radix+nostd, wrong digits); C09 itself only sees the panic in a checked no-std radix build, which is in its thorough plan now (`radix+nostd:checked`)"),
 "C09-L": ("B", "compact integer writer's scratch buffer sized u64::FORMATTED_SIZE (20 without power-of-two)", "feature compact without power-of-two / radix; u128/i128 >= 1e20: panic with the documented buffer", ["C09"], ""),
 "C10-K": ("A", "StackVec::from_u32 pushes inside a debug_assert!", "release builds; feature radix; odd radix; values >= 1 near a tie: the denominator is empty, large_quorem asserts", ["C10", "C05"], ""),
 "C10-L": ("B", "can_try_parse_multidigits gated on `not(radix)` (cf. C04-D)", "power-of-two without radix; no_multi_digit(false); radix 16/32: debug assertion, wrong values in release", ["C10", "C04"], "C04 (pow2) reported the release values at first; C10 had no power-of-two build with assertions: `pow2:checked` joined the C09 and C10 quick plans"),
 "C11-K": ("A", "the edit of C04-I (skip.rs take_n relative indices) under the partial/complete property", "feature format; sign or prefix in front of the digits; first non-digit inside the unchecked window: partial count short", ["C11"], ""),
 "C11-L": ("B", "NumberFormat::required_mantissa_digits() returns REQUIRED_EXPONENT_DIGITS (the const is still right)", "feature format; formats with required_exponent_digits(false) (JAVASCRIPT_STRING, XML ...): complete `inf`, partial (0.0, 0)", ["C11"], ""),
 "C12-K": ("A", "NumberFormatBuilder::rebuild reads no_float_leading_zeros from the integer flag", "feature format; a format derived through rebuild(base) where base has exactly one of the two leading-zero flags", ["C18"], "reported by C18 (getter / rebuild round trip). C12 takes the packed format as the ground truth of its reference grammar, so a builder that produces other bits than intended is by construction C18's business"),
 "C12-L": ("B", "format_error_impl tests NO_POSITIVE_EXPONENT_SIGN together with REQUIRED_MANTISSA_SIGN", "feature format; required_mantissa_sign + no_positive_exponent_sign: a valid format is rejected for every input", ["C12", "C18"], ""),
 "C13-K": ("A", "indexing!(@prevc) ends in a plain `index - 1`", "overflow-checked builds; feature format; consecutive modes IC/LC/ILC/ITC/LTC; a separator run at byte 0: panic", ["C13", "C10"], "C10 (radix+format:checked) reported it at first; C13 gained the same build"),
 "C13-L": ("B", "the reverse of repair #38 (ExponentDigitsIterator judges neighbours in the mantissa radix)", "mantissa radix != exponent radix; restricted exponent separator modes", ["C13"], ""),
 "C14-K": ("A", "compact write_float_scientific: the one-digit branch precedes the min_significant_digits padding", "feature compact; min_significant_digits >= 3; exponent notation; one significant digit: `1.0e20` instead of `1.0000e20`", ["C14"], ""),
 "C14-L": ("B", "binary truncate_and_round: above_halfway uses >=", "power-of-two radices; Round; an exact tie with an even kept digit is rounded up (radix 2: 1.01b at 2 digits -> 1.1)", ["C14"], "pre-empted: the recorded finding c14_pow2_max_digits_applied_to_bits excused every value mismatch of a power-of-two radix under a digit limit; radix 2 (one bit per digit) is now excluded from it, and the unchanged tree passes"),
 "C15-K": ("A", "is_special_eq (case-sensitive branch) no longer consumes trailing separators after a match", "feature format; case_sensitive_special + special_digit_separator; the special string followed by separators: `NaN_` rejected", ["C15"], "missed at first: the only format with both flags was compiled for f64 alone and the C15 streams took formats with both float types only; single-type formats are included now"),
 "C15-L": ("B", "write_special debug-asserts `len < MAX_SPECIAL_STRING_LENGTH`", "builds with debug assertions; a nan/inf string of exactly 50 letters: panic", ["C15", "C09"], "as C02-L (C09 compact:checked at first; C15 gained radix+format:checked)"),
 "C16-K": ("A", "f32_exponent_limit(10) (-10, 10) -> (-11, 11) in the power-of-two-without-radix copy", "power-of-two without radix; f32; scaled exponent -11 or 11..=18", ["C16"], ""),
 "C16-L": ("B", "f32 MIN_EXPONENT_ROUND_TO_EVEN -17 -> -11", "non-compact; f32 exact ties with 12..16 fraction digits round up instead of to even", ["C16"], ""),
 "C17-K": ("A", "truncate_and_round_decimal scans past the generated digits into the caller's buffer", "max_significant_digits, Round, an exact tie with an even kept digit: the result depends on what the buffer held (facade: zero-filled)", ["C17", "C14"], "pre-empted: the reference call of C17 wrote into a zero-filled buffer like the facade; it is now prefilled with ASCII zeros, so a writer that reads what it has not written answers differently on the two sides (C14 reports the wrong tie rounding through its 0xA5-filled buffers)"),
 "C17-L": ("B", "isize written through usize whose decimal_signed override is gone (two sites)", "non-compact; negative isize through the facade: panic", ["C17"], ""),
 "C18-K": ("A", "is_valid_ascii = is_ascii_whitespace || is_ascii_graphic (drops 0x0B)", "a punctuation byte equal to vertical tab", ["C18"], ""),
 "C18-L": ("B", "is_valid_base_suffix gated on `format` alone", "format without power-of-two / radix; a packed format with a base suffix byte is reported valid", ["C18"], ""),
 "C19-K": ("A", "a lossy shortcut in parse_partial skips the sign", "lossy; partial API; negative input past the exact fast path: `-1e100` -> (1e100, 6)", ["C19"], ""),
 "C19-L": ("B", "the edit of C16-E / C05-H (compact int_pow in 32 bits), found independently", "feature compact; f64; decimal exponent 32..=37", ["C19"], ""),
}

ROUNDS = [(T3, "/tmp/mut", 3), (T4, "/tmp/mut4", 4), (T5, "/tmp/mut5", 5), (T6, "/tmp/mut6", 6)]


def main():
    for table, mut_dir, rnd in ROUNDS:
        for key, (letter, change, needs, caught, note) in table.items():
            pid = key.split("-")[0]
            wt = os.path.join(mut_dir, pid)
            dst = os.path.join(SEEDED, key)
            if os.path.isdir(wt) and os.path.exists(os.path.join(wt, f"mutant{letter}.diff")):
                os.makedirs(dst, exist_ok=True)
                shutil.copy(os.path.join(wt, f"mutant{letter}.diff"), os.path.join(dst, "patch.diff"))
                if os.path.exists(os.path.join(wt, f"mutant{letter}.md")):
                    shutil.copy(os.path.join(wt, f"mutant{letter}.md"), os.path.join(dst, "description.md"))
                d2 = os.path.join(dst, "demonstration")
                if os.path.exists(d2):
                    shutil.rmtree(d2)
                shutil.copytree(os.path.join(wt, f"demo{letter}"), d2, ignore=shutil.ignore_patterns("target", "Cargo.lock"))
            if not os.path.isdir(dst):
                print("missing", key)
                continue
            meta = {
                "property": pid,
                "change": change,
                "needs_to_manifest": needs,
                "what_was_run": "tools/try_mutant.py verify in the scratch worktree: the patch applies to the repository, the workspace builds, the pinned suite (cargo test --workspace --no-fail-fast --offline) passes with it (394 passed, 0 failed), the demonstration exits non-zero with the patch and zero without; tools/par_mutants.py (a private copy of /repo with the patch applied, bind-mounted over /repo in a mount namespace) or tools/try_mutant.py check (git -C /repo apply, restore with git -C /repo checkout -- .): `python3 run.py check <ID> --tier quick` for the listed checks",
                "round": rnd,
                "caught_by_quick_checks": caught,
                "strengthening": note,
                "note": "demonstration/Cargo.toml refers to the library crates by relative path (../lexical-core ...): copy it into a checkout of the repository to run it",
            }
            json.dump(meta, open(os.path.join(dst, "meta.json"), "w"), indent=1)
    # INDEX.md from all meta.json
    rows = []
    for key in sorted(os.listdir(SEEDED)):
        mp = os.path.join(SEEDED, key, "meta.json")
        if not os.path.exists(mp):
            continue
        m = json.load(open(mp))
        caught = ", ".join(m.get("caught_by_quick_checks", []))
        st = m.get("strengthening") or ""
        if st:
            caught += f" (after strengthening: {st})"
        rows.append(f"| {key} | {m.get('change', '')} | {m.get('needs_to_manifest', '')} | {caught} |")
    with open(os.path.join(SEEDED, "INDEX.md"), "w") as f:
        f.write("# Seeded changes\n\nEach directory holds `patch.diff` (apply with `git -C /repo apply <file>`, undo with `git -C /repo checkout -- .`), `description.md` (the author's notes), `demonstration/` (a tiny cargo project that fails with the change and passes without) and `meta.json`.\nAll of them compile and pass the pinned test-suite. None is committed to the repository. (SELF-A / SELF-B are two probes written by the author of the checks, without demonstration.)\n\n| change | what | needs to manifest | quick checks that report it |\n|---|---|---|---|\n")
        f.write("\n".join(rows) + "\n")
    print(len(rows), "changes indexed")


if __name__ == "__main__":
    main()
