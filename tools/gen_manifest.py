#!/usr/bin/env python3
"""Regenerates /verif/MANIFEST.json from the table below (keeps it valid at all times)."""
import json
import os

VERIF = os.path.dirname(os.path.dirname(os.path.abspath(__file__)))

# id -> (design section, level text, level note, technique)
CLAIMED = {
    "C01": (
        "Generated-input search: decimal strings built from exact expansions of float midpoints (truncated / perturbed / re-laid-out), grammar-random strings with thousands of digits and >i64 exponents, fast-path and range edges and a per-decimal-exponent sweep are parsed through parse, parse_partial(+junk) and the STANDARD options API in 6 (quick) / 11 (thorough) feature configurations (incl. power-of-two and no-std compact builds) and compared bit-exactly with an exact big-rational rounding oracle. Held on everything explored; not a proof.",
        "Trusted: the harness's big-integer rounding oracle (self-tested against std and Python fractions at setup), rustc, proptest.",
        "property-based testing (proptest) against an exact-arithmetic reference oracle; stratified enumeration over decimal exponents",
    ),
    "C02": (
        "Generated and enumerated float bit patterns (structured generators, every binade x mantissa patterns, the enumerated class of floats adjacent to a short decimal that is exactly a rounding midpoint; thorough: all 2^32 f32 patterns) are written with the default API; the bytes are read back by an independent strict reader and judged by exact interval arithmetic: round trip, sign, digit count, and (non-compact) shortest + closest.",
        "Trusted: exact interval model of IEEE rounding in harness/vcore (self-tested), rustc, proptest; ryu only as a non-deciding cross-check.",
        "property-based testing + exhaustive enumeration of sub-domains against an exact rounding-interval oracle (round-trip and minimality relations)",
    ),
    "C03": (
        "Exhaustive over all 8/16-bit values x every compiled radix, enumerated binary boundaries 2^k+d (|d| <= 40, both signs) for the eight wider types x every radix, generated (uniform, log-uniform, r^k+-1, 2^k+d, chunk products incl. a first quotient of 2^64+-1, MIN/MAX) for the wider types, compared with a naive reference numeral; default API compared with Display/itoa; slice offset, length and canaries checked.",
        "Trusted: native u128 division for the reference numeral, std Display.",
        "exhaustive enumeration + property-based testing against a naive reference implementation (differential)",
    ),
    "C04": (
        "Exhaustive over all strings of length <= 4 (thorough 5) over a per-radix 10-byte alphabet for 8/16-bit types, generated boundary strings (MAX+-2, MIN+-2, r^k+-1, overflow_digits and SWAR-block lengths, injected near-digit bytes, sign variants, junk) for 12 types x every radix x no_multi_digit, compared (value, error kind, index; complete and partial) with a left-to-right reference scan; default API also against str::parse.",
        "Trusted: reference scan with checked u128 arithmetic; one documented leniency (optional sign followed by a non-digit: Empty or InvalidDigit / Ok((0,i)) accepted).",
        "exhaustive enumeration + property-based testing against a reference scanner (model-based differential)",
    ),
    "C05": (
        "Per compiled radix format (34 non-decimal radices, 5 mixed mantissa/base pairs x 2 exponent-digit radices, 12 exponent-digit-radix variants) and per float type: strings from exact radix-r expansions of float midpoints / values (truncated, perturbed, re-laid-out, upper and lower case digits), grammar-random strings up to 2000 digits with exponents beyond i64, fast-path region and range edges, compared bit-exactly (parse, parse_partial, parse_partial+junk) with the exact rational oracle for mantissa x base^exponent.",
        "Trusted: exact big-rational rounding oracle (vcore), the harness's own decoder of the packed format; formats are limited to the compiled catalogue (core group).",
        "property-based testing (proptest, one runner per format) against an exact-arithmetic reference oracle",
    ),
    "C06": (
        "Per compiled power-of-two format (radix 2/4/8/16/32, the five mixed mantissa/base pairs with two exponent-digit radices, sign/notation flag variants) and float type: finite bit patterns (structured, r^k neighbourhoods, integers, every binade) x {default, forced positional, forced exponent notation} x trim_floats. The bytes are read by an independent strict reader; the written rational must equal m*2^q exactly; the parser of the same format must return the identical bits.",
        "Trusted: exact rational arithmetic (vcore), the strict reader; forced notation uses exponent breaks +-2000 / +-1.",
        "property-based testing + per-binade enumeration against an exact-arithmetic oracle and a write/parse round trip",
    ),
    "C07": (
        "Per compiled generic radix format (29 radices plus exponent-digit-radix and flag variants) and float type: finite bit patterns incl. r^k-ulp/r^k/r^k+ulp, integers below 2^53/2^24 (r^k+-1, all-ones, small), x {default, forced positional, forced exponent notation} x trim_floats. Strict reader (digits of the radix only, one point, one exponent, upper case), acceptance by the same-format parser, exact error bound < 2048/256 ulp by big-integer cross-multiplication, exactness for integers below 2^p; the observed ulp-error histogram is reported.",
        "Trusted: exact rational arithmetic (vcore). With max_significant_digits set only well-formedness, parser acceptance and sign are judged (the rounded value is C14's business).",
        "property-based testing against an exact-arithmetic error-bound oracle",
    ),
    "C08": (
        "For every compiled format that has both a writer and a parser for a type (12 integer types x radix and sign formats; f32/f64 x radices, mixed bases, write-flag, syntax-flag and the 147 prebuilt formats): generated values incl. +-0, +-inf, NaN x generated write options without digit truncation (min digits, breaks, trim, custom punctuation, special strings) with agreeing parse options, plus the enumerated floats d*10^e (d = 1..99, every exponent, both signs) with trim_floats off and on for the decimal core formats: the complete parser of the same format accepts every written byte and returns the identical bits (integers, decimal and power-of-two floats, zeros, infinities; NaN->NaN; acceptance only for generic radices).",
        "Trusted: nothing beyond the harness plumbing (round-trip relation). Specials are skipped when their string is disabled, the format forbids specials, or the string is itself a number of the format (large radices / letter punctuation).",
        "property-based testing of a write/parse round-trip relation",
    ),
    "C09": (
        "For every compiled writer (12 integer types x every radix format; f32/f64 x core, write-flag, syntax and prebuilt formats): generated values x generated valid write options (max/min digits up to 2000, exponent breaks over the whole i32 range incl. i32::MIN/MAX, round mode, trim, punctuation, special strings) x buffer lengths {bound, bound+1, bound+7} and lengths below the bound (0, generated, bound-1, written-1, written), every buffer being a guard-page slice of exactly that length in both placements inside supervised worker processes; release and debug-assertion builds. Monitor/oracle: the bound evaluates, no panic with len >= bound, returned slice is a prefix within the bound, short buffers succeed in-slice or panic, canaries intact, no fault. Third observation point lexical::to_string_with_options (allocates the bound itself; facade formats x the same options, bounds up to 1 MiB): no panic, length <= bound.",
        "Trusted: kernel page protection, crash attribution via the shared progress record; specials with a disabled string are excluded (documented panic); bounds above 8 GiB skipped.",
        "property-based testing under a memory-fault / panic monitor (guard pages + supervised subprocesses) with the documented bound as oracle",
    ),
    "C10": (
        "For every valid compiled format x every compiled type x {parse, parse_partial}, in release and in debug-assertion+overflow-check builds: all strings up to length 3 (thorough 4) over the per-format alphabet and generated inputs (valid numbers under insert/delete/duplicate/replace/truncate/splice mutations, arbitrary bytes, inputs padded to KiBs; lossy / no_multi_digit toggled). Every input sits in a guard-page buffer of exactly its length, once flush with the trailing and once with the leading PROT_NONE page, inside a supervised worker process. Monitor: the call returns (catch_unwind, worker survives, 20 s watchdog), count <= len, error index <= len.",
        "Trusted: the kernel's page protection; attribution of a worker death to the last case recorded in a shared mapping. A read outside the slice that stays in mapped memory away from both guards is not visible to the quick tier; the thorough tier adds libFuzzer+ASan campaigns (fz_c10) and a generated corpus under Miri. A worker that stalls is re-executed alone before non-termination is reported.",
        "property-based testing and bounded-exhaustive enumeration under a memory-fault / panic / hang monitor (guard pages + supervised subprocesses)",
    ),
    "C11": (
        "For every valid compiled format (core, syntax, prebuilt, write, separator groups) x float types (standard and custom punctuation) x integer types: all strings up to length 4 (thorough 5) over the per-format alphabet incl. separator, prefix/suffix and special-string letters, plus generated numbers with prefixes, suffixes and one-byte mutations. Pure relations: complete(s)=Ok(v) iff partial(s)=Ok((v,len)); partial(s)=Ok((v,n)), n>0 implies complete(s[..n])=Ok(v).",
        "Trusted: nothing beyond the harness plumbing (relation between two API calls). Three deviations are recorded as known findings with narrow structural matchers (integer sign-without-digits, specials that are numeric in large radices, empty number before a special when digits are optional).",
        "bounded-exhaustive enumeration + property-based testing of a relational (metamorphic) oracle",
    ),
    "C12": (
        "Bounded-exhaustive: every string up to length 4 (thorough 5) over a per-format number alphabet for every valid separator-free compiled format (18 single flags, all valid flag pairs, 90 random 3-8 flag words, 27+ base prefix/suffix variants, 147 prebuilt language formats, radix and write-flag formats) x {f64, f32, i32/u64}: lexical's complete parser must accept exactly what the reference grammar derives, with the exactly rounded / exact integer value. The reference grammar is validated against the 216 hidden doc TEST assertions at setup. Per-flag dependence counts are reported.",
        "Trusted: reference grammar transcribed from the NumberFormatBuilder documentation (harness/vcore/refparse.rs); only compiled catalogue formats are reached; the oracle abstains on a bare sign when digits are optional. Two documented-grammar deviations are recorded as known findings (empty string / digit-less integers accepted when digits are optional).",
        "bounded-exhaustive enumeration against a reference grammar (model-based differential)",
    ),
    "C13": (
        "For every valid compiled separator format (14 uniform modes, 42 single-component modes, 60 mixed triples, special/radix-16/prefix/syntax combinations) x {f64(+f32), u32/i64}: all strings up to length 6 (thorough 7) over {-,+,0,1,sep,point,exponent,junk}, plus generated numbers (midpoint-derived up to 1200 bytes, integer edges) with separator runs inserted at arbitrary positions. Relations: accepted exactly where the documented classifier enables every run, value of the digits; deleting separators keeps acceptance/value (complete, and the prefix consumed by the partial parser); separator-free inputs are treated identically by the separator-free counterpart format (complete and partial).",
        "Trusted: separator classifier transcribed from docs/DigitSeparators.md and the per-mode examples documented in skip.rs; only ~200 of the 16^3 mode triples are compiled (all uniform and single-component modes, mixed-radix exponent modes, sampled mixtures). A separator that touches the base prefix letter is not judged (undocumented). One recorded finding (digit-less integer partial parse: Empty vs Ok((0, i))).",
        "bounded-exhaustive enumeration + property-based testing: metamorphic relations and a reference classifier",
    ),
    "C14": (
        "Per compiled writer format (radix 10, every power-of-two and generic radix, mixed bases, sign/notation flag variants) and float type: finite values (structured bits; short digit strings in the output radix giving exact ties and carry patterns; a fifth of the cases couple a (r-1)..(r-1)h value with max digits <= the run length and min in {0, max, below}) x generated options (max/min digits 1..64, breaks, Round/Truncate, trim, custom punctuation). Metamorphic oracle: the output, read by a strict reader with the configured punctuation, must equal the default output of the same float rounded in exact digit arithmetic (half-even / truncate, carry adjusts the exponent), with <= max significant digits, no more written digits (zero padding included) than max apart from integer zeros and the mandatory '.0', >= min digits unless trimmed, '.0' trimmed exactly for integral outputs in both notations, and exponent notation iff required or the (rounded) scientific exponent is outside the breaks and never when forbidden.",
        "Trusted: exact digit arithmetic in the harness; the library's default output is the base of the relation. For power-of-two radices the break unit is undocumented (notation only demanded where digit and bit readings agree); mixed bases are exempt from the notation clause. Four known findings with structural matchers.",
        "property-based testing with a metamorphic oracle (default output rounded in exact arithmetic)",
    ),
    "C15": (
        "Parse side: generated (format, float type, nan/inf/infinity option strings from a fixed pool of 1..50 letter strings incl. None) x inputs derived from a configured string (exact, prefixes, one-byte extensions, case flips, 0x20-neighbours, separator insertion, sign variants) compared with a reference matcher; numeric inputs never yield NaN and keep the sign of zero; the partial parser returns specials only for configured strings. Write side: +-0, +-inf, NaNs with either sign bit and payloads x every compiled writer format x option strings or None: exact bytes, sign rules, panic when disabled, zero parses back with its sign.",
        "Trusted: reference matcher in harness/vcore/refparse.rs; radices >= 19 (where special strings are partly numeric) are excluded here and covered by the C11 finding. One known finding (separator run before a special string is skipped).",
        "property-based testing against a reference matcher + round-trip relations",
    ),
    "C16": (
        "One seeded stream of default-API cases (decimal float strings incl. midpoint-derived and special-string variants, integer strings near the limits, integer values, float bit patterns) is evaluated in 9 (quick) / all 24 (thorough) builds over {std, compact, power-of-two, radix, format}; per chunk of 1024 cases a 128-bit hash per result class (parse value bits/count/error kind+index; integer bytes; float bytes) is compared across builds (float bytes across non-compact builds); a differing chunk is dumped in both builds to name the first differing case. Compact float output must parse back to the same bits.",
        "Trusted: the stream is a pure function of VERIF_SEED (proptest ChaCha RNG); hash collisions (128-bit) are ignored; this host's target only.",
        "differential testing across build configurations on a generated input stream",
    ),
    "C17": (
        "lexical::to_string / to_string_with_options vs lexical_core::write / write_with_options (bytes equal, panic iff panic, valid UTF-8) for 14 types in the default API and {f32, f64, i64, u8} x up to five facade-instantiated formats x generated valid options; lexical::parse* vs lexical_core::parse* (four entry points) on generated texts for six types; every byte emitted by every compiled catalogue writer under generated valid options is 7-bit ASCII.",
        "Trusted: 'valid options' = the options builders' is_valid(); only five formats are instantiated for the facade (const generic).",
        "property-based differential testing (facade vs core) plus an output-alphabet invariant",
    ),
    "C18": (
        "Run-time builder states (rebuild -> build_unchecked / build_strict under catch_unwind) exhaustively over all 2^18 syntax-flag words, all 2^13 separator-flag words x separator set/unset, all 256 values of every punctuation / radix field, all punctuation triples from a 12-byte set, plus generated joint states, against a reference validity predicate written from the documentation; every catalogue entry's compile-time verdict vs the reference vs the run-time builder; every compiled invalid format x inputs (configuration error, never a value or panic); generated invalid decimal point / exponent options on valid formats (InvalidPunctuation from complete and partial float parsers); generated setter sequences on the format builder (documented bit layout, getters, rebuild) and the options builders.",
        "Trusted: reference predicate in harness/vcore/fmodel.rs; when several rules are violated any of their errors is accepted; feature sets default/pow2/radix/format/radix+format.",
        "exhaustive enumeration of sub-domains + property-based testing against a reference validity predicate; stateful setter sequences against a last-write-wins model",
    ),
    "C19": (
        "The C01/C05 generators for STANDARD and every compiled radix / mixed-base format; each input is parsed with lossy=false and lossy=true (complete, and partial with trailing junk): identical accept/reject, count, error; accepted results within one bit-pattern neighbour of the exactly rounded value, identical for exact-fast-path inputs and for zero/infinite results (except in the last rounding zone next to MAX / min subnormal, where the statement's neighbour clause also applies and both outcomes are accepted).",
        "Trusted: exact oracle; the harness's (conservative) definition of 'decided by the exact fast path'.",
        "property-based testing: metamorphic relation (lossy vs non-lossy) plus an exact reference oracle",
    ),
}

PENDING_REASON = "check not built yet (work in progress; see DESIGN.md section 14 for the order)"


def main():
    props = [json.loads(l)["id"] for l in open(os.path.join(VERIF, "properties.jsonl"))]
    checks = []
    for pid in props:
        if pid not in CLAIMED:
            continue
        text, note, tech = CLAIMED[pid]
        checks.append(
            {
                "property_id": pid,
                "quick_cmd": f"python3 run.py check {pid} --tier quick",
                "thorough_cmd": f"python3 run.py check {pid} --tier thorough",
                "evidence_file": f"evidence/{pid}.json",
                "replay_cmd_template": "python3 run.py replay {path}",
                "engine": "checks",
                "level_claimed": {"category": "exploration", "text": text, "design_ref": f"DESIGN.md section 6 ({pid})"},
                "level_note": note,
                "technique": tech,
            }
        )
    na_path = os.path.join(VERIF, "tools", "not_applicable.json")
    na_reasons = json.load(open(na_path)) if os.path.exists(na_path) else {}
    manifest = {
        "version": 1,
        "setup_cmd": "python3 run.py setup",
        "hooks": {
            "guard": "lexical_verif",
            "enable": "none needed: every observation point is a public API call or made from outside the process; the guard name is reserved and unused",
            "baseline_off_cmd": "cd /repo && cargo test --workspace --no-fail-fast --offline",
            "source_commits": [],
            "add_only": True,
        },
        "engines": [
            {
                "name": "checks",
                "path": "harness/checks",
                "serves_properties": sorted(CLAIMED),
                "kind_free_text": "Rust binary built once per lexical feature configuration (and profile); proptest-driven generated cases and exhaustive/stratified enumerations evaluated against exact big-rational oracles, reference readers/grammars and differential relations (harness/vcore); compiled FORMAT catalogue in harness/shards; orchestrated by run.py",
            }
        ],
        "checks": checks,
        "not_applicable": [{"property_id": p, "reason": na_reasons.get(p, PENDING_REASON)} for p in props if p not in CLAIMED],
        "notes": "Exit codes of every command: 0 held on everything explored, 1 violation (VIOLATION line printed), 2 infrastructure problem (never a violation). VERIF_SEED seeds every generator; VERIF_SCALE multiplies generated-case counts. Thorough tier adds: more configurations, larger case counts and longer enumerations; libFuzzer+ASan campaigns whose targets carry the same oracles (C01, C02, C04-C14, C19; run.py FUZZ table); for C09/C10 a generated corpus executed natively and under Miri; for C16 all 24 feature configurations. A call into the library that does not return is confirmed by re-executing the single case alone in a fresh process before it is reported (DESIGN.md section 21.1); a mere time-out is exit 2.",
    }
    with open(os.path.join(VERIF, "MANIFEST.json"), "w") as f:
        json.dump(manifest, f, indent=1)
    print("claimed:", sorted(CLAIMED))


if __name__ == "__main__":
    main()
