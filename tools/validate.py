#!/usr/bin/env python3
"""Validate MANIFEST.json and evidence files against the schemas (uses the tooling venv)."""
import json, sys, glob
import jsonschema
m = json.load(open('/verif/MANIFEST.json'))
jsonschema.validate(m, json.load(open('/root/.vp/MANIFEST.schema.json')))
props = [json.loads(l)['id'] for l in open('/verif/properties.jsonl')]
claimed = [c['property_id'] for c in m['checks']]
na = [c['property_id'] for c in m.get('not_applicable', [])]
assert sorted(claimed + na) == sorted(props), (sorted(set(props) - set(claimed) - set(na)), [x for x in claimed if x in na])
es = json.load(open('/root/.vp/EVIDENCE.schema.json'))
for f in sorted(glob.glob('/verif/evidence/*.json')):
    jsonschema.validate(json.load(open(f)), es)
    print('ok', f)
print('manifest ok; claimed', claimed)
