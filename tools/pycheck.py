#!/usr/bin/env python3
"""Setup-time cross-check of the Rust exact-arithmetic oracle against Python big integers and
fractions (trusted base check; not a property check)."""
import struct
import subprocess
import sys
from fractions import Fraction

binary = sys.argv[1]
bad = 0

out = subprocess.run([binary, "selftest", "export-big"], stdout=subprocess.PIPE, text=True, check=True).stdout
n = 0
for line in out.splitlines():
    base, e, m, sh, dec, bl = line.split()
    v = int(base) ** int(e) * int(m)
    if str(v) != dec or (v << int(sh)).bit_length() != int(bl):
        print("Big mismatch:", line[:200])
        bad += 1
    n += 1


def round_fraction(fr, p, ebits):
    """nearest-even rounding of a non-negative Fraction to (p, ebits) IEEE format -> magnitude bits"""
    bias = (1 << (ebits - 1)) - 1
    qmin = 1 - bias - (p - 1)
    if fr == 0:
        return 0
    # find q such that fr / 2^q in [2^(p-1), 2^p)
    e = fr.numerator.bit_length() - fr.denominator.bit_length()
    q = e - p
    while fr / Fraction(2) ** q >= 2 ** p:
        q += 1
    while fr / Fraction(2) ** q < 2 ** (p - 1):
        q -= 1
    q = max(q, qmin)
    scaled = fr / Fraction(2) ** q
    m = scaled.numerator // scaled.denominator
    rem = scaled - m
    if rem > Fraction(1, 2) or (rem == Fraction(1, 2) and m % 2 == 1):
        m += 1
    if m == 2 ** p:
        m //= 2
        q += 1
    if m < 2 ** (p - 1):
        return m
    biased = q + (p - 1) + bias
    if biased >= (1 << ebits) - 1:
        return ((1 << ebits) - 1) << (p - 1)
    return (biased << (p - 1)) | (m & ((1 << (p - 1)) - 1))


out = subprocess.run([binary, "selftest", "export-round"], stdout=subprocess.PIPE, text=True, check=True).stdout
k = 0
for line in out.splitlines():
    name, text, bits = line.split()
    t = text.lower().lstrip("+-")
    if "e" in t:
        mant, ex = t.split("e")
        ex = int(ex)
    else:
        mant, ex = t, 0
    if abs(ex) > 5000:
        continue
    if "." in mant:
        a, b = mant.split(".")
    else:
        a, b = mant, ""
    digits = (a + b) or "0"
    fr = Fraction(int(digits)) * Fraction(10) ** (ex - len(b))
    p, ebits = (53, 11) if name == "f64" else (24, 8)
    want = round_fraction(fr, p, ebits)
    if want != int(bits):
        print("rounding mismatch:", name, text[:80], bits, want)
        bad += 1
    if name == "f64" and len(text) < 300:
        # python's float() is correctly rounded too
        try:
            pf = abs(float(text))
            pb = struct.unpack("<Q", struct.pack("<d", pf))[0]
            if pb != int(bits):
                print("float() mismatch:", text[:80], bits, pb)
                bad += 1
        except OverflowError:
            pass
    k += 1

print(f"pycheck: {n} big-integer traces, {k} rounding verdicts, {bad} mismatches")
sys.exit(1 if bad else 0)
