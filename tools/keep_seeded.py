#!/usr/bin/env python3
"""One-off bookkeeping: copy the verified seeded changes from the scratch worktrees into /verif/seeded and write INDEX.md.
Kept for the record of how seeded/ was produced (tools/try_mutant.py does the verification and the check runs)."""
import json, os, shutil, sys
MUT = "/tmp/mut"
T = {
 "C01-A": ("Eisel-Lemire round-to-even window for f64 one exponent too narrow (MIN_EXPONENT_ROUND_TO_EVEN -4 -> -3)", "default features; f64 decimal strings that are exact ties arriving with q == -4", ["C01"], ""),
 "C01-B": ("two digits transposed in one cached Bellerophon power of ten (10^-130)", "feature compact; decimal inputs whose scaling uses the 10^-130 entry and land within ~1e-3 ulp of a rounding boundary", ["C01"], ""),
 "C02-A": ("Dragonbox DIV_BY_5_THRESHOLD computed with floor_log10_pow2 instead of floor_log2_pow10", "default build (Dragonbox); floats whose binary exponent lies between the wrong and the right threshold", ["C02"], ""),
 "C02-B": ("one wrong cached power (10^164) in the Grisu table", "feature compact; f64 values scaled by the 10^164 entry", ["C02"], ""),
 "C03-A": ("jeaiii 9-digit fixed-point multiplier loses its +1", "default features; u32/i32/u64.. values whose 9-digit chunk sits at the rounding edge of the multiplier (about 1 in 10^1 of 9-digit values near 10^8 multiples)", ["C03"], ""),
 "C03-B": ("letter O typed as digit 0 in the radix-29 two-digit table", "feature radix without compact; radix 29; a value whose two-digit group is (7, 24)", ["C03"], ""),
 "C04-A": ("Integer::overflow_digits uses the 2-digits-per-byte bound for radix 17 as well", "feature radix; radix 17; inputs with exactly the overflow digit count that overflow the type", ["C04"], ""),
 "C04-B": ("4-digit SWAR digit test misses the upper bound of one byte lane", "default features; a 4-byte chunk with a non-digit above '9' in the second lane, e.g. '1:34'", ["C04"], ""),
 "C05-A": ("mantissa-radix-16 / exponent-base-4 re-parse of long mantissas uses the wrong exponent step", "features power-of-two; mixed 16/4 formats; more than 16 hexadecimal digits", ["C05"], ""),
 "C05-B": ("LARGE_POW31_STEP 60 -> 65 in the big-integer power table", "feature radix without compact; radix 31; inputs that reach the slow path", ["C05"], ""),
 "C06-A": ("radix 32 dropped from the power-of-two writer dispatch (falls to the generic writer)", "feature radix; radix 32; subnormal and tiny floats", ["C06"], ""),
 "C06-B": ("DIGIT_TO_BASE32_SQUARED entry 'OO' -> 'O0'", "feature power-of-two; radix 32; a digit pair (24, 24)", ["C06"], ""),
 "C07-A": ("generic-radix scratch buffer 2200 -> 1300 bytes", "feature radix; radix 3 (and other small radices); tiny f64 (below about 3^-200)", ["C07", "C09"], ""),
 "C07-B": ("one wrong DIGIT_TO_BASE23_SQUARED entry used for exponent digits", "feature radix; radix 23; exponent +-132", ["C07"], ""),
 "C08-A": ("'+' only written for exponents > 0 under required_exponent_sign", "feature format; a format with required_exponent_sign and required_exponent_notation; value with exponent 0", ["C08"], ""),
 "C08-B": ("Dragonbox compute_nearest_shorter uses xi - 1 in the shorter-interval case", "default build; the 29 f32 / f64 powers of two whose shorter interval needs the left endpoint", ["C08", "C02"], ""),
 "C09-A": ("write_integer_signed picks the decimal digit-count routine for i64 in every radix", "feature power-of-two or radix without compact; negative i64 written into a buffer of exactly FORMATTED_SIZE_DECIMAL bytes", ["C09"], ""),
 "C09-B": ("formatted digit allowance 28 -> 18 in the float buffer bound", "write options with negative_exponent_break <= -43 and a buffer of exactly the documented size", ["C09"], ""),
 "C10-A": ("exponent digits accumulated saturating, then added to the explicit exponent with a plain +", "builds with overflow checks (debug assertions); 19 or more exponent digits", ["C10"], ""),
 "C10-B": ("Bellerophon table index bound >= -> >", "feature compact or radix; inputs just past the table, e.g. 1e310", ["C10"], ""),
 "C11-A": ("is_il internal-separator test looks for 'not a separator' instead of 'a digit'", "feature format; a digit-separator format with exactly internal+leading flags for a component; input digit, separator, non-digit", ["C11"], ""),
 "C11-B": ("EmptyExponent only reported at the end of the input", "default features; partial parser; exponent character followed by a non-digit ('1ez')", ["C11"], ""),
 "C12-A": ("float parser reads case_sensitive_base_prefix for the base suffix", "features format + power-of-two; a format with a base suffix whose prefix/suffix case flags differ; suffix letter in the other case", ["C12"], ""),
 "C12-B": ("base prefix accepted after any number of leading zeros (zeros >= 1)", "features format + power-of-two; integer format with a base prefix; input '00x1F'", ["C12"], ""),
 "C13-A": ("is_ltc trailing-separator test looks one byte ahead instead of past the separator run", "feature format; a component with exactly leading+trailing+consecutive separator flags; two or more separators between digits", ["C13"], ""),
 "C13-B": ("stored fraction slice length decided from the integer component's contiguity", "feature format; separators enabled only in the fraction; more than 19 digits near a halfway point with a separator in the fraction", ["C13"], ""),
 "C14-A": ("decimal truncate_and_round looks only at the digit after a 5 to decide 'above halfway'", "default features; max_significant_digits = n with even digit n, digit n+1 = 5, digit n+2 = 0 and a later non-zero digit (1.2501 at 2 digits)", ["C14"], ""),
 "C14-B": ("generic-radix positional padding skipped whenever trim_floats is on", "feature radix; non-decimal non-power-of-two radix; trim_floats with min_significant_digits on a non-integral value", ["C14"], ""),
 "C15-A": ("special parsing returns early when the short infinity string does not match", "options whose long infinity string does not start with the short one (inf='Infty', infinity='Infinity')", ["C15"], ""),
 "C15-B": ("shared::round clamps to infinity with exp > INFINITE_POWER instead of >=", "feature compact (decimal) or radix (non-decimal): values in [2^(emax+1), 2^(emax+2)), e.g. 2e308 -> NaN", ["C15", "C01", "C05"], "missed by the first C15 check (numeric inputs were only those near the special strings); the numeric-beyond-range stream was added to C15 and the beyond_range_text generator to C01/C05"),
 "C16-A": ("u64 step for radix 10 uses max_step_10 in the power-of-two-without-radix feature block", "feature power-of-two without radix; 20 or more significant digits with the first 20 >= 2^64", ["C16"], ""),
 "C16-B": ("REQUIRED_EXPONENT_DIGITS reads the REQUIRED_EXPONENT_SIGN flag", "feature format; '1e', '1.5e+' (default API)", ["C16"], ""),
 "C17-A": ("is_valid_letter case-folds with & 0x5f, which also clears the high bit", "a NaN / infinity option string with a byte 0xC1..0xDA or 0xE1..0xFA after the first letter; writing NaN/inf", ["C17", "C18"], "missed by the first C17 and C18 checks (option strings came from a pool of valid strings); C17 gained the raw-options stream and C18 a pool with strings that break one documented rule"),
 "C17-B": ("lexical::to_string_with_options sizes its buffer with FORMATTED_SIZE instead of the options' bound", "float write options that lengthen the output beyond 64 bytes (min_significant_digits >= 64, large exponent breaks)", ["C17"], ""),
 "C18-A": ("is_valid_optional_control reads exponent_base where exponent_radix is meant", "features format + power-of-two; exponent radix larger than mantissa radix and exponent base; punctuation that is a digit only in the exponent radix", ["C18"], ""),
 "C18-B": ("'exponent character equals base suffix' collision no longer rejected", "features format + power-of-two; a format with a base suffix and parse options whose exponent character equals it", ["C18"], ""),
 "C19-A": ("lossy mode skips the slow-path fallback and binary() returns the invalid marker for exact halfway", "feature power-of-two or radix; radix 2/4/8/16/32; lossy; more than 64 bits of digits that are exactly halfway", ["C19"], ""),
 "C19-B": ("leading integer zeros consume the 19-digit budget when the mantissa is re-parsed after overflow", "default features; lossy; leading zeros and more than 19 significant digits", ["C19"], ""),
}

# round 2 (authors were told about the round-1 changes and asked for different mechanisms); worktree mutantA/B -> keys C/D
T2 = {
 "C01-C": ("A", "bigint u64_to_hi64_2 reports 'not truncated' when the top limb is already normalized", "default features; >19-digit decimal integer whose bit length is a multiple of 64, top 64 bits a tie pattern, next limb non-zero", ["C01"], ""),
 "C01-D": ("B", "Bellerophon early exit widened to the i32 range; the following bias add overflows", "feature compact; effective decimal exponent in 2147483298..=2147483646 (1e2147483646 -> 0.0 instead of inf)", ["C01"], "missed at first: exponent digits were random; exp_digits now also draws exponents within +-400 of 0x1000, i16/u16/i32/u32/i64/u64 limits"),
 "C02-C": ("A", "Dragonbox compute_nearest_shorter compares against the unadjusted left endpoint", "non-compact build; 26 f64 / 3 f32 exact powers of two", ["C02"], ""),
 "C02-D": ("B", "Grisu mul truncates instead of rounding", "feature compact; f64 only; about 1 in 220000 random doubles", ["C02"], "missed at first (about 0.6M random doubles per configuration in the quick tier); the generated stream is now 3M per type and configuration"),
 "C03-C": ("A", "128-bit decimal writer: 3-step branch taken for n > u64::MAX instead of n >= 10^20", "default features; u128/i128 with magnitude in 2^64..10^20-1 (leading zero written)", ["C03"], ""),
 "C03-D": ("B", "radix writer multiplies the last two-digit index in u8", "power-of-two or radix without compact; u8 >= 128 / i8::MIN; radix >= 12", ["C03"], ""),
 "C04-C": ("A", "char_to_valid_digit_const folds case with & 0x5f (bytes 0xC1..0xDA, 0xE1..0xFA become digits)", "radix above 10; an input with such a non-ASCII byte", ["C04"], ""),
 "C04-D": ("B", "multi-digit gate keyed on feature radix instead of power-of-two", "feature power-of-two without radix; radix 16/32; no_multi_digit(false); 8 (4) bytes 0x30..0x3f in a chunk", ["C04"], ""),
 "C05-C": ("A", "slow_binary digit loop ignores the first truncated digit when deciding 'all zero past the tie'", "power-of-two; radix 2/4/8/16/32; exact tie in the first u64_step digits and digit step+1 the only non-zero one", ["C05"], ""),
 "C05-D": ("B", "byte_comp drops the 'input digits ran out before the midpoint digits' arm", "feature radix; odd radix; integer digits with a negative exponent that are a prefix of a midpoint expansion", ["C05"], ""),
 "C06-C": ("A", "hex scale_sci_exp double rounding (divide by bits_per_base, then ceil-divide)", "power-of-two; mantissa radix 16 with exponent base 4; binary exponent = -1 mod 4", ["C06"], ""),
 "C06-D": ("B", "overflow re-parse no longer scales the implicit exponent when the integer digits alone fill the mantissa", "power-of-two; hex-float layouts; positional output with long integer parts (>= 2^64)", ["C06"], ""),
 "C07-C": ("A", "positional zero padding of very long integers only with max_significant_digits set", "feature radix; radix 3..21; f64 >= radix^232 with positive_exponent_break >= 232", ["C07"], ""),
 "C07-D": ("B", "WriteFloatOptions::from_radix keeps 'e' for radix 15", "feature radix; radix exactly 15; options taken from from_radix(15)", ["C07"], "missed at first: every check set the exponent character itself; C06/C07 gained two option modes that use the library's from_radix presets for writing and parsing"),
 "C08-C": ("A", "fast path multiplies the mantissa with wrapping_mul for exponents above 10^22", "default build; f64; few digits, exponent 23..37, digits * 10^(exp-22) wrapping to <= 2^53 (1.8447e41)", ["C08"], ""),
 "C08-D": ("B", "scientific writer drops the no_exponent_without_fraction guard when trimming", "feature format; a no_exponent_without_fraction format; trim_floats; one-digit values in exponent notation", ["C08"], ""),
 "C09-C": ("A", "algorithm_u128: assert -> debug_assert and the re-slice dropped (writes past a short buffer)", "power-of-two or radix without compact; u128/i128 above u64::MAX in a non-decimal radix; buffer shorter than the digits; release build", ["C09"], ""),
 "C09-D": ("B", "inclusive range when zero-padding to min_significant_digits in positional decimal output", "non-compact; negative value below 1 at the negative exponent break with min_significant_digits >= 28 and a buffer of exactly the documented size", ["C09"], ""),
 "C10-C": ("A", "binary(): the exact-halfway undecidable marker is returned in lossy mode too", "power-of-two; lossy; radix 2..32 powers of two; > 64 bits of digits exactly halfway; debug assertions", ["C10"], ""),
 "C10-D": ("B", "large_add_from: saturating_sub -> plain subtraction", "default features; f64; > 19 digits near a halfway point, remaining exponent >= 135, digits a multiple of 2^384", ["C10", "C01"], "missed at first: no generator produced digit strings with whole zero limbs; gen::limb_aligned_text (midpoint / base^e rounded to a multiple of 2^(64 z)) was added to C10, C01 and C05"),
 "C11-C": ("A", "complete integer parser no longer checks that it saw a digit", "feature format; separator-only inputs after the sign in formats with leading/trailing integer separators", ["C11"], ""),
 "C11-D": ("B", "complete parser's parse_special returns early when the input is longer than the infinity string", "a NaN string longer than the infinity string, or specials spelled with separators beyond 8 bytes", ["C11"], "missed at first: C11 only used the default special strings as short tails; C11 gained the special-strings stream (case flips, 0-6 separators, tails) and an alternative option set whose NaN string is longer than the infinity string"),
 "C12-C": ("A", "no_integer_leading_zeros misses all-zero input ('00')", "feature format; no_integer_leading_zeros; integers; input of two or more zeros", ["C12"], ""),
 "C12-D": ("B", "complete float parser accepts empty input under required_integer_digits", "feature format; required_integer_digits with required_mantissa_digits off; '', '+', '-'", ["C12"], ""),
 "C13-C": ("A", "skip_zeros returns the byte span instead of the number of zeros", "feature format; > 19 digits with separators between or before leading zeros", ["C13"], ""),
 "C13-D": ("B", "parse_u64_digits uses next(), which only counts digits of separator-skipping components", "feature format; mixed formats; > 19 digits; no separator needed", ["C13"], ""),
 "C14-C": ("A", "literal '1.0' written when 0.99.. rounds up to 1", "default features; decimal point other than '.'; max_significant_digits on 0.99..9x", ["C14"], ""),
 "C14-D": ("B", "round_up increments the ASCII character (successor of '9' is ':')", "feature radix; generic radix above 10; round-up landing on digit 9", ["C14"], ""),
 "C15-C": ("A", "SpecialDigitsIterator skips at most one separator per position", "feature format; special_digit_separator; two or more consecutive separators in a special", ["C15"], ""),
 "C15-D": ("B", "needs_negative_sign excludes exactly negative infinity", "default features; writing -inf", ["C15"], ""),
 "C16-C": ("A", "compact normalized_boundaries compares against the f64 hidden bit for every type", "feature compact; f32; 23 of the 254 powers of two", ["C16"], ""),
 "C16-D": ("B", "power-of-two build: write_integer_signed forwards to the unsigned decimal routine", "power-of-two or radix without compact; negative i64/isize into a buffer of exactly FORMATTED_SIZE_DECIMAL", ["C16"], "caught because C16 writes into buffers of exactly the documented size (changed from 64/128-byte buffers just before this round)"),
 "C17-C": ("A", "lexical::parse* wrappers return Err(Empty) for empty input before calling the core parser", "feature format; a digits-optional format; empty input; *_with_options entry points", ["C17"], "missed at first: no facade format made digits optional and the texts were never empty; the facade gained a digits-optional format and degenerate texts"),
 "C17-D": ("B", "WriteIntegerOptions::buffer_size_const looks at the exponent radix", "power-of-two + format; mantissa radix 2/4/8 with exponent radix 10; integers longer than their decimal size", ["C17"], "missed at first for two reasons: no facade format had a small mantissa radix with decimal exponent digits, and the lexical-core reference call used the same (wrong) bound as the facade; the facade gained OCT_E10 / BIN_E10 and u64/u128/i32, and the reference writes into a generous buffer"),
 "C18-C": ("A", "rebuild reads the exponent radix from the exponent-base field", "power-of-two or radix; exponent radix different from exponent base; going through rebuild", ["C18"], ""),
 "C18-D": ("B", "exponent 'consecutive separator needs a position flag' check uses the whole exponent flag mask", "feature format; exponent_consecutive_digit_separator alone plus another exponent syntax flag", ["C18"], ""),
 "C19-C": ("A", "lossy-only extended fast path chaining three rounded multiplications", "default features; lossy; short mantissa with decimal exponent +-45..66 (f64) / +-21..30 (f32); 0.1-0.4% of such inputs are 2 ulp off", ["C19"], ""),
 "C19-D": ("B", "lossy Bellerophon loses the 'exponent -64 is zero' special case", "radix (non-decimal) or compact; lossy; value in (2^-1076, 2^-1075): smallest subnormal instead of zero", ["C19"], "missed at first: the oracle accepted either outcome for every value below the smallest subnormal; it is now strict on the zero side (the unchanged tree returns zero there in 48M lossy cases over two seeds) and lenient only in [MAX, MAX+ulp)"),
}

RUN = "tools/try_mutant.py verify: the patch applies to the repository, the workspace builds, the pinned suite (cargo test --workspace --no-fail-fast --offline) passes with it (394 passed, 0 failed), the demonstration exits non-zero with the patch and zero without; tools/try_mutant.py check: patch applied to /repo with `git -C /repo apply`, `python3 run.py check <ID> --tier quick` for the listed checks, /repo restored with `git -C /repo checkout -- .`"
def main():
    res = json.load(open(sys.argv[1])) if len(sys.argv) > 1 else {}
    rows = []
    for key, (what, needs, caught, note) in sorted(T.items()):
        pid, which = key.split("-")
        wt = os.path.join(MUT, pid)
        dst = os.path.join("/verif/seeded", key)
        if os.path.isdir(wt) and not os.path.exists(os.path.join(dst, "patch.diff")):
            os.makedirs(dst, exist_ok=True)
            shutil.copy(os.path.join(wt, f"mutant{which}.diff"), os.path.join(dst, "patch.diff"))
            md = os.path.join(wt, f"mutant{which}.md")
            if os.path.exists(md):
                shutil.copy(md, os.path.join(dst, "description.md"))
            demo = os.path.join(wt, f"demo{which}")
            if os.path.isdir(demo):
                d2 = os.path.join(dst, "demonstration")
                if os.path.exists(d2):
                    shutil.rmtree(d2)
                shutil.copytree(demo, d2, ignore=shutil.ignore_patterns("target", "Cargo.lock", "*.log"))
        if os.path.exists(os.path.join(dst, "meta.json")):
            rows.append((key, what, needs, caught, note))
            continue
        meta = {"property": pid, "change": what, "needs_to_manifest": needs, "what_was_run": RUN,
                "caught_by_quick_checks": caught, "check_results": res.get(key, {}), "strengthening": note,
                "note": "demonstration/Cargo.toml refers to the library crates by relative path (../lexical-core ...): copy it into a checkout of the repository to run it"}
        json.dump(meta, open(os.path.join(dst, "meta.json"), "w"), indent=1)
        rows.append((key, what, needs, caught, note))
    for key, (which, what, needs, caught, note) in sorted(T2.items()):
        pid = key.split("-")[0]
        wt = os.path.join(MUT, pid)
        dst = os.path.join("/verif/seeded", key)
        if os.path.isdir(wt) and os.path.exists(os.path.join(wt, f"mutant{which}.diff")):
            os.makedirs(dst, exist_ok=True)
            shutil.copy(os.path.join(wt, f"mutant{which}.diff"), os.path.join(dst, "patch.diff"))
            md = os.path.join(wt, f"mutant{which}.md")
            if os.path.exists(md):
                shutil.copy(md, os.path.join(dst, "description.md"))
            demo = os.path.join(wt, f"demo{which}")
            if os.path.isdir(demo):
                d2 = os.path.join(dst, "demonstration")
                if os.path.exists(d2):
                    shutil.rmtree(d2)
                shutil.copytree(demo, d2, ignore=shutil.ignore_patterns("target", "Cargo.lock", "*.log"))
            meta = {"property": pid, "change": what, "needs_to_manifest": needs, "what_was_run": RUN, "round": 2,
                    "caught_by_quick_checks": caught, "strengthening": note,
                    "note": "demonstration/Cargo.toml refers to the library crates by relative path (../lexical-core ...): copy it into a checkout of the repository to run it"}
            json.dump(meta, open(os.path.join(dst, "meta.json"), "w"), indent=1)
        rows.append((key, what, needs, caught, note))
    rows.sort()
    with open("/verif/seeded/INDEX.md", "w") as f:
        f.write("# Seeded changes\n\nEach directory holds `patch.diff` (apply with `git -C /repo apply <file>`, undo with `git -C /repo checkout -- .`), `description.md` (the author's notes), `demonstration/` (a tiny cargo project that fails with the change and passes without) and `meta.json`.\nAll of them compile and pass the pinned test-suite. None is committed to the repository.\n\n| change | what | needs to manifest | quick checks that report it |\n|---|---|---|---|\n")
        for key, what, needs, caught, note in rows:
            f.write(f"| {key} | {what} | {needs} | {', '.join(caught)}{' (after strengthening: ' + note + ')' if note else ''} |\n")
main()
