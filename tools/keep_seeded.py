#!/usr/bin/env python3
"""One-off bookkeeping: copy the verified seeded changes from the scratch worktrees into /verif/seeded and write INDEX.md.
Kept for the record of how seeded/ was produced (tools/try_mutant.py does the verification and the check runs)."""
import json, os, shutil, sys
MUT = "/tmp/mut"
T = {
 "C01-A": ("Eisel-Lemire round-to-even window for f64 one exponent too narrow (MIN_EXPONENT_ROUND_TO_EVEN -4 -> -3)", "default features; f64 decimal strings that are exact ties arriving with q == -4", ["C01"], ""),
 "C01-B": ("two digits transposed in one cached Bellerophon power of ten (10^-130)", "feature compact; decimal inputs whose scaling uses the 10^-130 entry and land within ~1e-3 ulp of a rounding boundary", ["C01"], ""),
 "C02-A": ("Dragonbox DIV_BY_5_THRESHOLD computed with floor_log10_pow2 instead of floor_log2_pow10", "default build (Dragonbox); floats whose binary exponent lies between the wrong and the right threshold", ["C02"], ""),
 "C02-B": ("one wrong cached power (10^164) in the Grisu table", "feature compact; f64 values scaled by the 10^164 entry", ["C02"], ""),
 "C03-A": ("jeaiii 9-digit fixed-point multiplier loses its +1", "default features; u32/i32/u64.. values whose 9-digit chunk sits at the rounding edge of the multiplier (about 1 in 10^1 of 9-digit values near 10^8 multiples)", ["C03"], ""),
 "C03-B": ("letter O typed as digit 0 in the radix-29 two-digit table", "feature radix without compact; radix 29; a value whose two-digit group is (7, 24)", ["C03"], ""),
 "C04-A": ("Integer::overflow_digits uses the 2-digits-per-byte bound for radix 17 as well", "feature radix; radix 17; inputs with exactly the overflow digit count that overflow the type", ["C04"], ""),
 "C04-B": ("4-digit SWAR digit test misses the upper bound of one byte lane", "default features; a 4-byte chunk with a non-digit above '9' in the second lane, e.g. '1:34'", ["C04"], ""),
 "C05-A": ("mantissa-radix-16 / exponent-base-4 re-parse of long mantissas uses the wrong exponent step", "features power-of-two; mixed 16/4 formats; more than 16 hexadecimal digits", ["C05"], ""),
 "C05-B": ("LARGE_POW31_STEP 60 -> 65 in the big-integer power table", "feature radix without compact; radix 31; inputs that reach the slow path", ["C05"], ""),
 "C06-A": ("radix 32 dropped from the power-of-two writer dispatch (falls to the generic writer)", "feature radix; radix 32; subnormal and tiny floats", ["C06"], ""),
 "C06-B": ("DIGIT_TO_BASE32_SQUARED entry 'OO' -> 'O0'", "feature power-of-two; radix 32; a digit pair (24, 24)", ["C06"], ""),
 "C07-A": ("generic-radix scratch buffer 2200 -> 1300 bytes", "feature radix; radix 3 (and other small radices); tiny f64 (below about 3^-200)", ["C07", "C09"], ""),
 "C07-B": ("one wrong DIGIT_TO_BASE23_SQUARED entry used for exponent digits", "feature radix; radix 23; exponent +-132", ["C07"], ""),
 "C08-A": ("'+' only written for exponents > 0 under required_exponent_sign", "feature format; a format with required_exponent_sign and required_exponent_notation; value with exponent 0", ["C08"], ""),
 "C08-B": ("Dragonbox compute_nearest_shorter uses xi - 1 in the shorter-interval case", "default build; the 29 f32 / f64 powers of two whose shorter interval needs the left endpoint", ["C08", "C02"], ""),
 "C09-A": ("write_integer_signed picks the decimal digit-count routine for i64 in every radix", "feature power-of-two or radix without compact; negative i64 written into a buffer of exactly FORMATTED_SIZE_DECIMAL bytes", ["C09"], ""),
 "C09-B": ("formatted digit allowance 28 -> 18 in the float buffer bound", "write options with negative_exponent_break <= -43 and a buffer of exactly the documented size", ["C09"], ""),
 "C10-A": ("exponent digits accumulated saturating, then added to the explicit exponent with a plain +", "builds with overflow checks (debug assertions); 19 or more exponent digits", ["C10"], ""),
 "C10-B": ("Bellerophon table index bound >= -> >", "feature compact or radix; inputs just past the table, e.g. 1e310", ["C10"], ""),
 "C11-A": ("is_il internal-separator test looks for 'not a separator' instead of 'a digit'", "feature format; a digit-separator format with exactly internal+leading flags for a component; input digit, separator, non-digit", ["C11"], ""),
 "C11-B": ("EmptyExponent only reported at the end of the input", "default features; partial parser; exponent character followed by a non-digit ('1ez')", ["C11"], ""),
 "C12-A": ("float parser reads case_sensitive_base_prefix for the base suffix", "features format + power-of-two; a format with a base suffix whose prefix/suffix case flags differ; suffix letter in the other case", ["C12"], ""),
 "C12-B": ("base prefix accepted after any number of leading zeros (zeros >= 1)", "features format + power-of-two; integer format with a base prefix; input '00x1F'", ["C12"], ""),
 "C13-A": ("is_ltc trailing-separator test looks one byte ahead instead of past the separator run", "feature format; a component with exactly leading+trailing+consecutive separator flags; two or more separators between digits", ["C13"], ""),
 "C13-B": ("stored fraction slice length decided from the integer component's contiguity", "feature format; separators enabled only in the fraction; more than 19 digits near a halfway point with a separator in the fraction", ["C13"], ""),
 "C14-A": ("decimal truncate_and_round looks only at the digit after a 5 to decide 'above halfway'", "default features; max_significant_digits = n with even digit n, digit n+1 = 5, digit n+2 = 0 and a later non-zero digit (1.2501 at 2 digits)", ["C14"], ""),
 "C14-B": ("generic-radix positional padding skipped whenever trim_floats is on", "feature radix; non-decimal non-power-of-two radix; trim_floats with min_significant_digits on a non-integral value", ["C14"], ""),
 "C15-A": ("special parsing returns early when the short infinity string does not match", "options whose long infinity string does not start with the short one (inf='Infty', infinity='Infinity')", ["C15"], ""),
 "C15-B": ("shared::round clamps to infinity with exp > INFINITE_POWER instead of >=", "feature compact (decimal) or radix (non-decimal): values in [2^(emax+1), 2^(emax+2)), e.g. 2e308 -> NaN", ["C15", "C01", "C05"], "missed by the first C15 check (numeric inputs were only those near the special strings); the numeric-beyond-range stream was added to C15 and the beyond_range_text generator to C01/C05"),
 "C16-A": ("u64 step for radix 10 uses max_step_10 in the power-of-two-without-radix feature block", "feature power-of-two without radix; 20 or more significant digits with the first 20 >= 2^64", ["C16"], ""),
 "C16-B": ("REQUIRED_EXPONENT_DIGITS reads the REQUIRED_EXPONENT_SIGN flag", "feature format; '1e', '1.5e+' (default API)", ["C16"], ""),
 "C17-A": ("is_valid_letter case-folds with & 0x5f, which also clears the high bit", "a NaN / infinity option string with a byte 0xC1..0xDA or 0xE1..0xFA after the first letter; writing NaN/inf", ["C17", "C18"], "missed by the first C17 and C18 checks (option strings came from a pool of valid strings); C17 gained the raw-options stream and C18 a pool with strings that break one documented rule"),
 "C17-B": ("lexical::to_string_with_options sizes its buffer with FORMATTED_SIZE instead of the options' bound", "float write options that lengthen the output beyond 64 bytes (min_significant_digits >= 64, large exponent breaks)", ["C17"], ""),
 "C18-A": ("is_valid_optional_control reads exponent_base where exponent_radix is meant", "features format + power-of-two; exponent radix larger than mantissa radix and exponent base; punctuation that is a digit only in the exponent radix", ["C18"], ""),
 "C18-B": ("'exponent character equals base suffix' collision no longer rejected", "features format + power-of-two; a format with a base suffix and parse options whose exponent character equals it", ["C18"], ""),
 "C19-A": ("lossy mode skips the slow-path fallback and binary() returns the invalid marker for exact halfway", "feature power-of-two or radix; radix 2/4/8/16/32; lossy; more than 64 bits of digits that are exactly halfway", ["C19"], ""),
 "C19-B": ("leading integer zeros consume the 19-digit budget when the mantissa is re-parsed after overflow", "default features; lossy; leading zeros and more than 19 significant digits", ["C19"], ""),
}
RUN = "tools/try_mutant.py verify: the patch applies to the repository, the workspace builds, the pinned suite (cargo test --workspace --no-fail-fast --offline) passes with it (394 passed, 0 failed), the demonstration exits non-zero with the patch and zero without; tools/try_mutant.py check: patch applied to /repo with `git -C /repo apply`, `python3 run.py check <ID> --tier quick` for the listed checks, /repo restored with `git -C /repo checkout -- .`"
def main():
    res = json.load(open(sys.argv[1])) if len(sys.argv) > 1 else {}
    rows = []
    for key, (what, needs, caught, note) in sorted(T.items()):
        pid, which = key.split("-")
        wt = os.path.join(MUT, pid)
        dst = os.path.join("/verif/seeded", key)
        if os.path.isdir(wt):
            os.makedirs(dst, exist_ok=True)
            shutil.copy(os.path.join(wt, f"mutant{which}.diff"), os.path.join(dst, "patch.diff"))
            md = os.path.join(wt, f"mutant{which}.md")
            if os.path.exists(md):
                shutil.copy(md, os.path.join(dst, "description.md"))
            demo = os.path.join(wt, f"demo{which}")
            if os.path.isdir(demo):
                d2 = os.path.join(dst, "demonstration")
                if os.path.exists(d2):
                    shutil.rmtree(d2)
                shutil.copytree(demo, d2, ignore=shutil.ignore_patterns("target", "Cargo.lock", "*.log"))
        meta = {"property": pid, "change": what, "needs_to_manifest": needs, "what_was_run": RUN,
                "caught_by_quick_checks": caught, "check_results": res.get(key, {}), "strengthening": note,
                "note": "demonstration/Cargo.toml refers to the library crates by relative path (../lexical-core ...): copy it into a checkout of the repository to run it"}
        json.dump(meta, open(os.path.join(dst, "meta.json"), "w"), indent=1)
        rows.append((key, what, needs, caught, note))
    with open("/verif/seeded/INDEX.md", "w") as f:
        f.write("# Seeded changes\n\nEach directory holds `patch.diff` (apply with `git -C /repo apply <file>`, undo with `git -C /repo checkout -- .`), `description.md` (the author's notes), `demonstration/` (a tiny cargo project that fails with the change and passes without) and `meta.json`.\nAll of them compile and pass the pinned test-suite. None is committed to the repository.\n\n| change | what | needs to manifest | quick checks that report it |\n|---|---|---|---|\n")
        for key, what, needs, caught, note in rows:
            f.write(f"| {key} | {what} | {needs} | {', '.join(caught)}{' (after strengthening: ' + note + ')' if note else ''} |\n")
main()
