#!/usr/bin/env python3
"""Deterministic generator of the compiled FORMAT catalogue (harness/shards/shard_NN).

FORMAT is a const generic in lexical, so every format the checks exercise must be compiled in.
This script writes N shard crates (compiled in parallel by cargo); each exposes
`pub fn entries() -> Vec<fmtapi::Entry>`. The packed u128 values are computed here from the bit
layout documented in lexical-util/src/format_flags.rs; C18 cross-checks every entry against the
run-time builder (`NumberFormatBuilder::rebuild(F).build_unchecked() == F` etc.).

Run: python3 tools/gen_formats.py     (output is committed; fixed internal seed)
"""
import os
import random
import re
import shutil

VERIF = os.path.dirname(os.path.dirname(os.path.abspath(__file__)))
OUT = os.path.join(VERIF, "harness", "shards")
N_SHARDS = 16

FLAGS = {
    "required_integer_digits": 0,
    "required_fraction_digits": 1,
    "required_exponent_digits": 2,
    "required_mantissa_digits": 3,
    "no_positive_mantissa_sign": 4,
    "required_mantissa_sign": 5,
    "no_exponent_notation": 6,
    "no_positive_exponent_sign": 7,
    "required_exponent_sign": 8,
    "no_exponent_without_fraction": 9,
    "no_special": 10,
    "case_sensitive_special": 11,
    "no_integer_leading_zeros": 12,
    "no_float_leading_zeros": 13,
    "required_exponent_notation": 14,
    "case_sensitive_exponent": 15,
    "case_sensitive_base_prefix": 16,
    "case_sensitive_base_suffix": 17,
    "integer_internal_digit_separator": 32,
    "fraction_internal_digit_separator": 33,
    "exponent_internal_digit_separator": 34,
    "integer_leading_digit_separator": 35,
    "fraction_leading_digit_separator": 36,
    "exponent_leading_digit_separator": 37,
    "integer_trailing_digit_separator": 38,
    "fraction_trailing_digit_separator": 39,
    "exponent_trailing_digit_separator": 40,
    "integer_consecutive_digit_separator": 41,
    "fraction_consecutive_digit_separator": 42,
    "exponent_consecutive_digit_separator": 43,
    "special_digit_separator": 44,
}
SYNTAX_FLAGS = [k for k, v in FLAGS.items() if v < 32]
SEP_FLAGS = [k for k, v in FLAGS.items() if 32 <= v < 44]
DEFAULT_ON = {"required_exponent_digits", "required_mantissa_digits"}

INT_TYPES = ["u8", "u16", "u32", "u64", "u128", "usize", "i8", "i16", "i32", "i64", "i128", "isize"]


class Fmt:
    def __init__(self, name, group, radix=10, base=0, eradix=0, sep=0, prefix=0, suffix=0, on=(), off=(), path=None):
        self.name = name
        self.group = group
        self.radix = radix
        self.base = base
        self.eradix = eradix
        self.sep = sep
        self.prefix = prefix
        self.suffix = suffix
        self.flags = (set(DEFAULT_ON) | set(on)) - set(off)
        self.path = path  # prebuilt constant path instead of a literal
        self.pf = []  # float types with parse+partial
        self.pi = []  # int types with parse+partial
        self.wf = []  # float types with write
        self.wi = []  # int types with write
        self.req = set()

    def packed(self):
        v = 0
        for f in self.flags:
            v |= 1 << FLAGS[f]
        if any(FLAGS[f] >= 32 for f in self.flags):
            v |= self.sep << 64
        v |= self.prefix << 88
        v |= self.suffix << 96
        v |= self.radix << 104
        v |= self.base << 112
        v |= self.eradix << 120
        return v

    def features(self):
        """cargo features this entry needs in order to be *valid*"""
        req = set(self.req)
        if self.group == "invalid":
            return set()
        for r in (self.radix, self.base or self.radix, self.eradix or self.radix):
            if r == 10:
                continue
            if r in (2, 4, 8, 16, 32):
                req.add("power-of-two")
            else:
                req.add("radix")
        if self.flags != DEFAULT_ON or self.sep:
            req.add("format")
        if self.prefix or self.suffix:
            req.add("format")
            req.add("power-of-two")
        if "radix" in req:
            req.discard("power-of-two")
        return req


def valid_flags(flags):
    f = set(flags)
    if "no_exponent_notation" in f and "required_exponent_notation" in f:
        return False
    if "no_positive_mantissa_sign" in f and "required_mantissa_sign" in f:
        return False
    if "no_positive_exponent_sign" in f and "required_exponent_sign" in f:
        return False
    if "no_special" in f and ("case_sensitive_special" in f or "special_digit_separator" in f):
        return False
    for comp in ("integer", "fraction", "exponent"):
        pos = [f"{comp}_{p}_digit_separator" in f for p in ("internal", "leading", "trailing")]
        if f"{comp}_consecutive_digit_separator" in f and not any(pos):
            return False
    return True


def build_catalogue():
    rng = random.Random(20260926)
    cat = []

    # ---- core ---------------------------------------------------------------------------
    std = Fmt("STANDARD", "core")
    std.pf = ["f32", "f64"]
    std.wf = ["f32", "f64"]
    std.pi = list(INT_TYPES)
    std.wi = list(INT_TYPES)
    cat.append(std)
    for r in range(2, 37):
        if r == 10:
            continue
        f = Fmt(f"R{r}", "core", radix=r)
        f.pf = ["f32", "f64"]
        f.wf = ["f32", "f64"]
        f.pi = list(INT_TYPES)
        f.wi = list(INT_TYPES)
        cat.append(f)
    for (r, b) in [(4, 2), (8, 2), (16, 2), (32, 2), (16, 4)]:
        for er in (10, r):
            f = Fmt(f"MIX{r}_{b}_E{er}", "core", radix=r, base=b, eradix=er)
            f.pf = ["f32", "f64"]
            f.wf = ["f32", "f64"]
            cat.append(f)
    # mixed bases with the exponent-digit radix left unset (documented default: the mantissa radix)
    for (r, b) in [(4, 2), (8, 2), (16, 2), (32, 2), (16, 4)]:
        f = Fmt(f"MIX{r}_{b}_EUNSET", "core", radix=r, base=b, eradix=0)
        f.pf = ["f32", "f64"]
        f.wf = ["f32", "f64"]
        cat.append(f)
    # exponent-digit radix variants with base == radix
    for (r, er) in [(16, 10), (2, 10), (36, 10), (3, 10), (7, 2), (10, 2), (10, 16), (10, 36), (12, 36), (32, 8), (5, 36), (24, 10)]:
        f = Fmt(f"R{r}_E{er}", "core", radix=r, eradix=er)
        f.pf = ["f32", "f64"]
        f.wf = ["f64"]
        cat.append(f)

    # ---- write: notation flags x radices ------------------------------------------------------
    wr = [(10, 0, 0), (2, 0, 0), (4, 0, 0), (8, 0, 0), (16, 0, 0), (32, 0, 0), (3, 0, 0), (5, 0, 0), (12, 0, 0), (36, 0, 0), (16, 2, 10)]
    wflags = [
        ("RMS", ["required_mantissa_sign"]),
        ("RES", ["required_exponent_sign"]),
        ("NEN", ["no_exponent_notation"]),
        ("REN", ["required_exponent_notation"]),
        ("NPES", ["no_positive_exponent_sign"]),
        ("NPMS", ["no_positive_mantissa_sign"]),
        ("NEWF", ["no_exponent_without_fraction"]),
        ("RMS_RES_REN", ["required_mantissa_sign", "required_exponent_sign", "required_exponent_notation"]),
    ]
    for (r, b, er) in wr:
        for (tag, fl) in wflags:
            if r not in (10, 2, 16, 3, 36) and tag not in ("NEN", "REN"):
                continue
            f = Fmt(f"W{r}{'_B%d' % b if b else ''}_{tag}", "write", radix=r, base=b, eradix=er, on=fl)
            f.pf = ["f32", "f64"]
            f.wf = ["f32", "f64"]
            if r == 10 or tag == "RMS":
                f.pi = ["i32", "u64"]
                f.wi = ["i32", "u64"]
            cat.append(f)

    # ---- syntax ---------------------------------------------------------------------------------
    def syn(name, on=(), off=(), radix=10, prefix=0, suffix=0, base=0, eradix=0, floats=("f64", "f32"), ints=("i32", "u64")):
        f = Fmt(name, "syntax", radix=radix, base=base, eradix=eradix, prefix=prefix, suffix=suffix, on=on, off=off)
        f.pf = list(floats)
        f.pi = list(ints)
        f.wf = ["f64"]
        return f

    plain_syntax = [s for s in SYNTAX_FLAGS if s not in ("case_sensitive_base_prefix", "case_sensitive_base_suffix")]
    togglable = []  # (name, on-set, off-set)
    for s in plain_syntax:
        if s in DEFAULT_ON:
            togglable.append((s, (), (s,)))
        else:
            togglable.append((s, (s,), ()))
    seen = set()

    def add_syn(name, on, off, **kw):
        f = syn(name, on=on, off=off, **kw)
        if not valid_flags(f.flags):
            return False
        key = (f.packed())
        if key in seen:
            return False
        seen.add(key)
        cat.append(f)
        return True

    # singles
    for (n, on, off) in togglable:
        add_syn(f"S1_{n}", on, off)
    # all valid pairs (f64 + i32 only, to bound compile time)
    for i in range(len(togglable)):
        for j in range(i + 1, len(togglable)):
            a, b = togglable[i], togglable[j]
            add_syn(f"S2_{a[0]}__{b[0]}", a[1] + b[1], a[2] + b[2], floats=("f64",), ints=("i32",))
    # random 3..8-flag words
    n_multi = 0
    while n_multi < 90:
        k = rng.randint(3, 8)
        picks = rng.sample(togglable, k)
        on = tuple(x for p in picks for x in p[1])
        off = tuple(x for p in picks for x in p[2])
        if add_syn(f"SM{n_multi:02d}_" + "_".join("".join(w[0] for w in p[0].split("_")) for p in picks), on, off, floats=("f64",) if n_multi % 3 else ("f64", "f32"), ints=("i32",) if n_multi % 2 else ("u64",)):
            n_multi += 1
    # base prefix / suffix
    ps = []
    for (r, pfx, sfx) in [(16, ord("x"), 0), (16, 0, ord("h")), (16, ord("x"), ord("h")), (2, ord("b"), 0), (8, ord("o"), ord("q")), (10, ord("d"), 0), (10, 0, ord("d")), (3, ord("t"), ord("u")), (36, ord("_"), 0) if False else (32, ord("#"), ord("$"))]:
        for cs in ((), ("case_sensitive_base_prefix",), ("case_sensitive_base_suffix",), ("case_sensitive_base_prefix", "case_sensitive_base_suffix")):
            if "case_sensitive_base_prefix" in cs and not pfx:
                continue
            if "case_sensitive_base_suffix" in cs and not sfx:
                continue
            for extra in ((), ("no_float_leading_zeros", "no_integer_leading_zeros"), ("required_integer_digits",)):
                name = f"SP_R{r}_{'P%c' % pfx if pfx and chr(pfx).isalnum() else ('P%02x' % pfx if pfx else '')}{'S%c' % sfx if sfx and chr(sfx).isalnum() else ('S%02x' % sfx if sfx else '')}_{'c' * len(cs)}{len(extra)}_{len(ps)}"
                # the plain variant of every prefix/suffix layout gets all 12 integer types (the suffix letter is
                # looked for at type-dependent block boundaries of the integer parser)
                all_ints = ("u8", "u16", "u32", "u64", "u128", "usize", "i8", "i16", "i32", "i64", "i128", "isize")
                f = syn(name, on=cs + extra, radix=r, prefix=pfx, suffix=sfx, floats=("f64", "f32"), ints=all_ints if (not cs and not extra) else ("i32", "u64"))
                ps.append(f)
                cat.append(f)
    # base prefix / suffix without required digits (a bare prefix at the end of the buffer); a group of their own:
    # the partial/complete relations (C11) and totality (C10) quantify over them, the reference grammar of C12 does not
    for (r, pfx, sfx, tag) in [(16, ord("x"), 0, "Px"), (10, ord("d"), 0, "Pd"), (16, ord("x"), ord("h"), "PxSh"), (10, 0, ord("d"), "Sd")]:
        f = syn(f"SPN_R{r}_{tag}_NOREQ", off=("required_mantissa_digits", "required_exponent_digits"), radix=r, prefix=pfx, suffix=sfx, floats=("f64", "f32"), ints=("i32", "u64"))
        f.group = "prefix_noreq"
        f.wf = []
        cat.append(f)
    # hex float with prefix (C-style) and mixed base
    f = syn("SP_HEXFLOAT_Px", radix=16, base=2, eradix=10, prefix=ord("x"), floats=("f64", "f32"), ints=())
    cat.append(f)

    # ---- prebuilt language formats ------------------------------------------------------------
    src = open("/repo/lexical-util/src/prebuilt_formats.rs").read()
    for m in re.finditer(r"((?:#\[cfg\(feature = \"power-of-two\"\)\]\n)?)pub const ([A-Z0-9_]+): u128", src):
        name = m.group(2)
        f = Fmt(f"PB_{name}", "prebuilt", path=f"lexical_core::format::{name}")
        f.req = {"format"} | ({"power-of-two"} if m.group(1) else set())
        f.pf = ["f64", "f32"]
        f.pi = ["i32", "u64"]
        f.wf = ["f64"]
        cat.append(f)

    # ---- digit separators ------------------------------------------------------------------------
    def sepfmt(name, flags, sep=ord("_"), radix=10, special=False, floats=("f64",), ints=("u32", "i64"), extra=()):
        on = tuple(flags) + (("special_digit_separator",) if special else ()) + tuple(extra)
        f = Fmt(name, "sep", radix=radix, sep=sep, on=on)
        f.pf = list(floats)
        f.pi = list(ints)
        return f

    modes = []  # subsets of I/L/T with optional C (15 combos)
    for mask in range(1, 8):
        for c in (False, True):
            modes.append((mask, c))
    modes = [m for m in modes]  # 14
    # (7 position subsets) x (consecutive or not) = 14 valid non-empty modes; the 15th "mode" is none

    def mode_flags(comp, mask, c):
        out = []
        if mask & 1:
            out.append(f"{comp}_internal_digit_separator")
        if mask & 2:
            out.append(f"{comp}_leading_digit_separator")
        if mask & 4:
            out.append(f"{comp}_trailing_digit_separator")
        if c:
            out.append(f"{comp}_consecutive_digit_separator")
        return out

    def mode_tag(mask, c):
        return ("I" if mask & 1 else "") + ("L" if mask & 2 else "") + ("T" if mask & 4 else "") + ("C" if c else "")

    comps = ("integer", "fraction", "exponent")
    for (mask, c) in modes:
        fl = [x for comp in comps for x in mode_flags(comp, mask, c)]
        cat.append(sepfmt(f"SEP_ALL_{mode_tag(mask, c)}", fl, floats=("f64", "f32")))
    all_int_types = ("u8", "u16", "u32", "u64", "u128", "usize", "i8", "i16", "i32", "i64", "i128", "isize")
    for comp in comps:
        for (mask, c) in modes:
            # integer-component modes: every integer type (the multi-digit blocks and the overflow-free prefix of the
            # integer parser depend on the type); other components: two types (the integer iterator is contiguous there)
            cat.append(sepfmt(f"SEP_{comp[:3].upper()}_{mode_tag(mask, c)}", mode_flags(comp, mask, c), ints=all_int_types if comp == "integer" else ("u32", "i64")))
    seen_sep = set()
    n = 0
    while n < 60:
        trip = [rng.choice([None] + modes) for _ in comps]
        if all(t is None for t in trip):
            continue
        key = tuple(trip)
        if key in seen_sep:
            continue
        seen_sep.add(key)
        fl = [x for comp, t in zip(comps, trip) if t for x in mode_flags(comp, t[0], t[1])]
        tag = "_".join(mode_tag(*t) if t else "0" for t in trip)
        sepc = rng.choice([ord("_"), ord("'"), ord(","), ord(" ")])
        cat.append(sepfmt(f"SEP_MIX{n:02d}_{tag}_{sepc:02x}", fl, sep=sepc, floats=("f64", "f32") if n % 4 == 0 else ("f64",), ints=("u32", "i64") if n % 3 == 0 else ()))
        n += 1
    # a letter separator that is the exponent character in the other letter case (the exponent is matched without regard
    # to case unless the format says otherwise); a group of their own, used by C10 and by the punctuation part of C18
    for (tag, flags) in [("FRAC_T", mode_flags("fraction", 4, False)), ("INT_I", mode_flags("integer", 1, False))]:
        f = sepfmt(f"SEPC_E_{tag}", flags, sep=ord("E"), floats=("f64", "f32"), ints=())
        f.group = "sep_case"
        cat.append(f)
    # special_digit_separator with and without positional flags
    cat.append(sepfmt("SEP_SPECIAL_ONLY", [], special=True, floats=("f64", "f32"), ints=()))
    cat.append(sepfmt("SEP_SPECIAL_ILTC", [x for comp in comps for x in mode_flags(comp, 7, True)], special=True, floats=("f64", "f32"), ints=()))
    cat.append(sepfmt("SEP_SPECIAL_I_CS", [x for comp in comps for x in mode_flags(comp, 1, False)], special=True, floats=("f64",), ints=(), extra=("case_sensitive_special",)))
    # radix 16 with separators (incl. separator before a hex exponent digit)
    for (mask, c) in [(1, False), (7, True), (2, False), (4, True), (3, True)]:
        fl = [x for comp in comps for x in mode_flags(comp, mask, c)]
        cat.append(sepfmt(f"SEP_R16_{mode_tag(mask, c)}", fl, radix=16, floats=("f64",), ints=("u32", "i64")))
    cat.append(sepfmt("SEP_R16B2_ILTC", [x for comp in comps for x in mode_flags(comp, 7, True)], radix=16, floats=("f64",), ints=()))
    cat[-1].base = 2
    cat[-1].eradix = 10
    # exponent separators where the exponent digits are written in another radix than the mantissa digits
    # (every restricted exponent mode: the look-around of a separator must judge exponent digits in the
    # exponent radix) - added after two authors of seeded changes saw `1.4p1_9` rejected for an octal mantissa
    for (rad, base, erad, tag) in [(16, 2, 10, "R16B2E10"), (8, 2, 10, "R8B2E10"), (10, 10, 16, "R10E16"), (16, 16, 10, "R16E10")]:
        for (mask, c) in modes:
            f = sepfmt(f"SEP_{tag}_EXP_{mode_tag(mask, c)}", mode_flags("exponent", mask, c), radix=rad, floats=("f64",), ints=())
            f.base = base
            f.eradix = erad
            cat.append(f)
    for (mask, c) in [(1, False), (2, False), (4, False), (3, True)]:
        fl = [x for comp in comps for x in mode_flags(comp, mask, c)]
        f = sepfmt(f"SEP_R16B2E10_ALL_{mode_tag(mask, c)}", fl, radix=16, floats=("f64", "f32"), ints=("u32", "i64"))
        f.base = 2
        f.eradix = 10
        cat.append(f)
    # mantissa radix below the exponent radix with separators in every component (a byte can be an exponent
    # digit without being a mantissa digit: the look-around of integer / fraction separators must use the mantissa radix)
    for (rad, base, erad, tag) in [(8, 2, 10, "R8B2E10"), (10, 10, 16, "R10E16")]:
        for (mask, c) in [(1, False), (2, False), (4, False), (3, True)]:
            fl = [x for comp in comps for x in mode_flags(comp, mask, c)]
            f = sepfmt(f"SEP_{tag}_ALL_{mode_tag(mask, c)}", fl, radix=rad, floats=("f64",), ints=("u32", "i64"))
            f.base = base
            f.eradix = erad
            cat.append(f)
    # base prefix / suffix with restricted separator modes
    for (mask, c) in [(1, False), (2, False), (4, False), (3, False), (5, True), (6, False)]:
        fl = [x for comp in comps for x in mode_flags(comp, mask, c)]
        f = sepfmt(f"SEP_PFX_R16_{mode_tag(mask, c)}", fl, radix=16, floats=("f64",), ints=("u32", "i64"))
        f.prefix = ord("x")
        f.suffix = ord("h")
        cat.append(f)
    # separators combined with syntax flags and prefixes
    combo = [
        ("SEP_SYN_RID_I", ["required_integer_digits"], 1, False),
        ("SEP_SYN_NFLZ_ILTC", ["no_float_leading_zeros", "no_integer_leading_zeros"], 7, True),
        ("SEP_SYN_RFD_LT", ["required_fraction_digits"], 6, False),
        ("SEP_SYN_RMS_ILT", ["required_mantissa_sign"], 7, False),
        ("SEP_SYN_OPT_ILTC", [], 7, True),
    ]
    for (name, extra, mask, c) in combo:
        fl = [x for comp in comps for x in mode_flags(comp, mask, c)]
        f = sepfmt(name, fl, extra=extra, floats=("f64",), ints=("u32", "i64"))
        if name == "SEP_SYN_OPT_ILTC":
            f.flags -= {"required_mantissa_digits", "required_exponent_digits"}
        cat.append(f)
    f = sepfmt("SEP_PFX_R16_ILTC", [x for comp in comps for x in mode_flags(comp, 7, True)], radix=16, floats=("f64",), ints=("u32", "i64"))
    f.prefix = ord("x")
    f.suffix = ord("h")
    cat.append(f)

    # ---- invalid formats ---------------------------------------------------------------------------
    def inv(name, **kw):
        f = Fmt(name, "invalid", **kw)
        f.pf = ["f64"]
        f.pi = ["i32"]
        f.req = set()  # compiled in every configuration
        return f

    invalids = [
        inv("INV_RADIX_0", radix=0),
        inv("INV_RADIX_1", radix=1),
        inv("INV_RADIX_37", radix=37),
        inv("INV_RADIX_255", radix=255),
        inv("INV_BASE_1", radix=10, base=1),
        inv("INV_BASE_37", radix=10, base=37),
        inv("INV_ERADIX_1", radix=10, eradix=1),
        inv("INV_ERADIX_40", radix=10, eradix=40),
        inv("INV_SEP_DIGIT", sep=ord("1"), on=["integer_internal_digit_separator"]),
        inv("INV_SEP_PLUS", sep=ord("+"), on=["integer_internal_digit_separator"]),
        inv("INV_SEP_MINUS", sep=ord("-"), on=["fraction_internal_digit_separator"]),
        inv("INV_SEP_NONASCII", sep=0x80, on=["integer_internal_digit_separator"]),
        inv("INV_SEP_LETTER_R16", radix=16, sep=ord("a"), on=["integer_internal_digit_separator"]),
        inv("INV_PREFIX_DIGIT", radix=16, prefix=ord("f")),
        inv("INV_PREFIX_PLUS", radix=16, prefix=ord("+")),
        inv("INV_PREFIX_NONASCII", radix=16, prefix=0xff),
        inv("INV_SUFFIX_DIGIT", radix=16, suffix=ord("A")),
        inv("INV_SUFFIX_MINUS", radix=16, suffix=ord("-")),
        inv("INV_PUNCT_SEP_EQ_PREFIX", radix=16, sep=ord("x"), prefix=ord("x"), on=["integer_internal_digit_separator"]),
        inv("INV_PUNCT_SEP_EQ_SUFFIX", radix=16, sep=ord("h"), suffix=ord("h"), on=["integer_internal_digit_separator"]),
        inv("INV_PUNCT_PREFIX_EQ_SUFFIX", radix=16, prefix=ord("x"), suffix=ord("x")),
        inv("INV_EXP_FLAGS", on=["no_exponent_notation", "required_exponent_notation"]),
        inv("INV_MANT_SIGN", on=["no_positive_mantissa_sign", "required_mantissa_sign"]),
        inv("INV_EXP_SIGN", on=["no_positive_exponent_sign", "required_exponent_sign"]),
        inv("INV_SPECIAL_CS", on=["no_special", "case_sensitive_special"]),
        inv("INV_SPECIAL_SEP", sep=ord("_"), on=["no_special", "special_digit_separator"]),
        inv("INV_CONSEC_INT", sep=ord("_"), on=["integer_consecutive_digit_separator"]),
        inv("INV_CONSEC_FRAC", sep=ord("_"), on=["fraction_consecutive_digit_separator"]),
        inv("INV_CONSEC_EXP", sep=ord("_"), on=["exponent_consecutive_digit_separator"]),
        inv("INV_CONSEC_INT_OTHERS_OK", sep=ord("_"), on=["integer_consecutive_digit_separator", "fraction_internal_digit_separator"]),
        # valid or invalid depending on the feature set (the oracle decides per configuration)
        inv("INVQ_RADIX_16", radix=16),
        inv("INVQ_RADIX_3", radix=3),
        inv("INVQ_FLAG_ONLY", on=["required_integer_digits"]),
        inv("INVQ_SEP_ONLY", sep=ord("_"), on=["integer_internal_digit_separator"]),
        inv("INVQ_PREFIX_ONLY", radix=10, prefix=ord("x")),
        inv("INVQ_NO_DEFAULT_FLAGS", off=["required_exponent_digits", "required_mantissa_digits"]),
    ]
    cat.extend(invalids)
    return cat


HEADER = """// GENERATED by tools/gen_formats.py — do not edit.
#![allow(unused_mut, unused_variables, clippy::all)]
use fmtapi::Entry;

pub fn entries() -> Vec<Entry> {
    let mut v: Vec<Entry> = Vec::new();
"""


def cfg_attr(req):
    if not req:
        return ""
    parts = ", ".join(f'feature = "{r}"' for r in sorted(req))
    return f"#[cfg(all({parts}))]\n    "


def emit(cat):
    if os.path.isdir(OUT):
        shutil.rmtree(OUT)
    # assign to shards balancing estimated cost; keep prebuilt entries (many aliases) together
    def cost(f):
        return 3.0 * len(f.pf) + 1.0 * len(f.pi) + 1.0 * len(f.wf) + 0.3 * len(f.wi)

    shards = [[] for _ in range(N_SHARDS)]
    load = [0.0] * N_SHARDS
    prebuilt = [f for f in cat if f.group == "prebuilt"]
    others = [f for f in cat if f.group != "prebuilt"]
    # prebuilt: contiguous blocks in 3 shards
    for i, f in enumerate(prebuilt):
        s = (i * 3) // max(1, len(prebuilt))
        shards[s].append(f)
        load[s] += cost(f) * 0.5
    for f in sorted(others, key=cost, reverse=True):
        s = min(range(N_SHARDS), key=lambda i: load[i])
        shards[s].append(f)
        load[s] += cost(f)
    names = set()
    for si, shard in enumerate(shards):
        d = os.path.join(OUT, f"shard_{si:02d}")
        os.makedirs(os.path.join(d, "src"))
        with open(os.path.join(d, "Cargo.toml"), "w") as fh:
            fh.write(
                f"""[package]
name = "shard_{si:02d}"
version = "0.1.0"
edition = "2021"

[dependencies]
fmtapi = {{ path = "../../fmtapi", default-features = false }}
lexical-core = {{ path = "/repo/lexical-core", default-features = false, features = ["write-integers", "write-floats", "parse-integers", "parse-floats"] }}

[features]
default = ["std"]
std = ["fmtapi/std"]
compact = ["fmtapi/compact"]
power-of-two = ["fmtapi/power-of-two"]
radix = ["fmtapi/radix", "power-of-two"]
format = ["fmtapi/format"]
"""
            )
        with open(os.path.join(d, "src", "lib.rs"), "w") as fh:
            fh.write(HEADER)
            for f in sorted(shard, key=lambda f: f.name):
                assert f.name not in names, f.name
                names.add(f.name)
                lit = f.path if f.path else f"0x{f.packed():032x}_u128"
                fh.write(f"    {cfg_attr(f.features())}{{\n")
                fh.write(f"        const F: u128 = {lit};\n")
                fh.write(f'        let mut e = Entry::new::<F>("{f.name}", "{f.group}");\n')
                for t in f.pf:
                    fh.write(f"        e.pf::<{t}, F>();\n")
                for t in f.pi:
                    fh.write(f"        e.pi::<{t}, F>();\n")
                for t in f.wf:
                    fh.write(f"        e.wf::<{t}, F>();\n")
                for t in f.wi:
                    fh.write(f"        e.wi::<{t}, F>();\n")
                fh.write("        v.push(e);\n    }\n")
            fh.write("    v\n}\n")
    # aggregate crate
    d = os.path.join(OUT, "catalogue")
    os.makedirs(os.path.join(d, "src"))
    deps = "\n".join(f'shard_{i:02d} = {{ path = "../shard_{i:02d}", default-features = false }}' for i in range(N_SHARDS))

    def feat(name):
        return ", ".join(f'"shard_{i:02d}/{name}"' for i in range(N_SHARDS))

    with open(os.path.join(d, "Cargo.toml"), "w") as fh:
        fh.write(
            f"""[package]
name = "catalogue"
version = "0.1.0"
edition = "2021"

[dependencies]
fmtapi = {{ path = "../../fmtapi", default-features = false }}
{deps}

[features]
default = ["std"]
std = ["fmtapi/std", {feat('std')}]
compact = ["fmtapi/compact", {feat('compact')}]
power-of-two = ["fmtapi/power-of-two", {feat('power-of-two')}]
radix = ["fmtapi/radix", "power-of-two", {feat('radix')}]
format = ["fmtapi/format", {feat('format')}]
"""
        )
    with open(os.path.join(d, "src", "lib.rs"), "w") as fh:
        fh.write("// GENERATED by tools/gen_formats.py — do not edit.\npub use fmtapi::*;\n\npub fn entries() -> Vec<Entry> {\n    let mut v = Vec::new();\n")
        for i in range(N_SHARDS):
            fh.write(f"    v.extend(shard_{i:02d}::entries());\n")
        fh.write("    v.sort_by(|a, b| a.name.cmp(b.name));\n    v\n}\n")
    return shards, load


if __name__ == "__main__":
    cat = build_catalogue()
    shards, load = emit(cat)
    groups = {}
    for f in cat:
        groups[f.group] = groups.get(f.group, 0) + 1
    print("entries:", len(cat), groups)
    print("shard loads:", [round(x) for x in load])
